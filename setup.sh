#!/bin/sh
# offline setup: make sure hypothesis is importable in /venv, warm the private model caches
cd "$(dirname "$0")" || exit 2
/venv/bin/python -c "import hypothesis" 2>/dev/null || \
  /venv/bin/pip install --no-index --find-links /opt/veriftools/wheels hypothesis >/dev/null 2>&1
/venv/bin/python -c "import hypothesis" || { echo "hypothesis not importable"; exit 1; }
PYTHONPATH="$(pwd)" /venv/bin/python -c "
from lib import env
env.setup_process()
bad = env.warm_caches()
for a, e in bad: print('NOTE: could not warm', a, e[-200:])
print('setup ok; private home', env.home_dir())
"
