import glob, sys, collections
from osaca.parser import ParserX86ATT, ParserAArch64
from osaca.semantics import MachineModel, ArchSemantics, KernelDG, reduce_to_section
def lcds(arch, lines, flag=False):
    mm=MachineModel(arch=arch); sem=ArchSemantics(mm); isa=mm.get_ISA()
    p=ParserX86ATT() if isa=="x86" else ParserAArch64()
    k=p.parse_file("\n".join(lines)+"\n"); sem.add_semantics(k)
    dg=KernelDG(k,p,mm,sem,timeout=-1,flag_dependencies=flag)
    res={}
    for key,v in dg.get_loopcarried_dependencies().items():
        res[tuple(sorted(n.line_number-1 for n,_ in v["dependencies"]))]=v["latency"]
    return res
files=sorted(glob.glob("/repo/examples/*/*.s"))+["/repo/tests/test_files/kernel_x86.s","/repo/tests/test_files/kernel_aarch64.s","/repo/tests/test_files/kernel_x86_memdep.s","/repo/tests/test_files/kernel_aarch64_memdep.s","/repo/tests/test_files/kernel_aarch64_deps.s","/repo/tests/test_files/kernel_aarch64_sve.s"]
bad=collections.Counter(); tot=0
for f in files:
    code=open(f).read()
    isa="aarch64" if (".tx2." in f or "aarch64" in f) else "x86"
    p=ParserX86ATT() if isa=="x86" else ParserAArch64()
    k=reduce_to_section(p.parse_file(code),isa)
    lines=[i.line for i in k if i.mnemonic is not None or i.label is not None]
    n=len(lines)
    if n>45: continue
    for arch in (["zen2","icx"] if isa=="x86" else ["tx2","a64fx"]):
        try: base=lcds(arch,lines)
        except Exception as e: print("EXC",f,arch,repr(e)[:80]); continue
        for r in range(1,n):
            rl=lines[r:]+lines[:r]
            got=lcds(arch,rl)
            got={tuple(sorted((i+r)%n for i in key)):v for key,v in got.items()}
            tot+=1
            if got!=base:
                bad[f.split("/")[-1],arch]+=1
                if bad[f.split("/")[-1],arch]==1:
                    print("ROT",f.split("/")[-1],arch,"r=",r); print("   base",base); print("   got ",got)
print(tot, dict(bad))
