import sys, re, time
import ruamel.yaml
from cli import run_inproc
y=ruamel.yaml.YAML(typ="safe")
for a in sys.argv[1:]:
    t=time.time()
    out=run_inproc(["--arch",a,"--db-check","/repo/README.rst"])
    dt=time.time()-t
    m=[re.search(r"\((\d+)/(\d+)\) of instruction forms have no %s"%k,out) for k in ("throughput value","latency value","port pressure")]
    got=[(int(x.group(1)),int(x.group(2))) for x in m]
    data=y.load(open("/repo/osaca/data/%s.yml"%a))
    tot=0; miss=[0,0,0]
    for f in data["instruction_forms"]:
        k=len(f["name"]) if isinstance(f["name"],list) else 1
        tot+=k
        for i,key in enumerate(("throughput","latency","port_pressure")):
            if f.get(key,"MISSING") is None: miss[i]+=k
            if key not in f: print("  key missing",a,f["name"],key)
    print(a,round(dt,1),"got",got,"exp",[(x,tot) for x in miss], "OK" if got==[(x,tot) for x in miss] else "DIFF")
