"""Prototype: AArch64-flavoured synthetic ISA/arch + reference RAW incl. write-back."""
import os, random, tempfile, collections
from osaca.semantics import MachineModel, ArchSemantics, KernelDG
from osaca.parser import ParserAArch64
FLAGS=["N","Z","C","V"]
def fam(pf,n): return ("g" if pf in "wx" else "v")+n
def gen_spec(rnd):
    forms=[]
    for i in range(rnd.randint(2,6)):
        nops=rnd.randint(1,3)
        kinds=[rnd.choice(["x","x","w","d","q","imm"]) for _ in range(nops)]
        if rnd.random()<0.45: kinds[-1]="mem"
        if kinds[0]=="imm": kinds[0]="x"
        lat=rnd.choice([0,1,1,2,3,5])
        isa=None
        if rnd.random()<0.6:
            roles=[rnd.choice([(True,False),(False,True),(True,True)]) for _ in kinds]
            roles=[(True,False) if k=="imm" else r for k,r in zip(kinds,roles)]
            roles=[(rnd.choice([(True,False),(False,True)]) if k=="mem" and r==(True,True) else r) for k,r in zip(kinds,roles)]
            hidden=[(fl, rnd.choice([(True,False),(False,True)])) for fl in rnd.sample(FLAGS, rnd.randint(0,2))]
            isa=dict(roles=roles,hidden=hidden)
        forms.append(dict(name="ins%d"%i,kinds=kinds,lat=lat,isa=isa))
    return dict(forms=forms,pidx=rnd.choice([1,2,3]))
def opy(kind, role=None, ind="  "):
    if kind in "xwdq": s=ind+"- class: register\n"+ind+"  prefix: %s\n"%kind
    elif kind=="imm": s=ind+"- class: immediate\n"+ind+"  imd: int\n"
    else: s=ind+"- class: memory\n"+"".join(ind+"  %s: '*'\n"%k for k in ("base","offset","index","scale","pre_indexed","post_indexed"))
    if role is not None: s+=ind+"  source: %s\n"%str(role[0]).lower()+ind+"  destination: %s\n"%str(role[1]).lower()
    return s
def write_models(spec,d):
    a="osaca_version: 0.5.0\nmicro_architecture: SynA\narch_code: SYNA\nisa: AArch64\nhidden_loads: false\nload_latency: {w: 4.0, x: 4.0, b: 4.0, h: 4.0, s: 4.0, d: 4.0, q: 4.0, v: 4.0, z: 4.0}\np_index_latency: %d\nload_throughput: []\nload_throughput_default: [[1, '0']]\nstore_throughput: []\nstore_throughput_default: [[1, '1']]\nports: ['0', '1']\ninstruction_forms:\n"%spec["pidx"]
    i="osaca_version: 0.5.0\nisa: AArch64\ninstruction_forms:\n"
    for f in spec["forms"]:
        a+="- name: %s\n  operands:\n"%f["name"]+"".join(opy(k) for k in f["kinds"])+"  throughput: 1.0\n  latency: %s\n  port_pressure: [[1, '01']]\n"%f["lat"]
        if f["isa"]:
            i+="- name: %s\n  operands:\n"%f["name"]+"".join(opy(k,r) for k,r in zip(f["kinds"],f["isa"]["roles"]))
            if f["isa"]["hidden"]:
                i+="  hidden_operands:\n"+"".join("  - class: flag\n    name: %s\n    source: %s\n    destination: %s\n"%(fl,str(s).lower(),str(dd).lower()) for fl,(s,dd) in f["isa"]["hidden"])
    if not any(f["isa"] for f in spec["forms"]): i+="- name: dummy0\n  operands: []\n"
    pa=os.path.join(d,"syn.yml"); pi=os.path.join(d,"isa.yml"); open(pa,"w").write(a); open(pi,"w").write(i); return pa,pi
def gen_kernel(rnd,spec,n):
    k=[]
    for _ in range(n):
        f=rnd.choice(spec["forms"]); ops=[]
        for kd in f["kinds"]:
            if kd in "xw": pf=rnd.choice("xw") if False else kd; ops.append(("reg",pf,str(rnd.choice([1,2,3,4]))))
            elif kd in "dq": ops.append(("reg",kd,str(rnd.choice([1,2,3]))))
            elif kd=="imm": ops.append(("imm",rnd.choice([1,8,16])))
            else:
                b=str(rnd.choice([1,2,3,4,5])); mode=rnd.choice(["b","bo","bi","pre","post"])
                ix=str(rnd.choice([1,2,6])) if mode=="bi" else None
                ops.append(("mem",mode,b,ix,rnd.choice([8,16,24])))
        k.append((f,ops))
    return k
def render(ops):
    out=[]
    for o in ops:
        if o[0]=="reg": out.append(o[1]+o[2])
        elif o[0]=="imm": out.append("#%d"%o[1])
        else:
            _,mode,b,ix,v=o
            out.append({"b":"[x%s]"%b,"bo":"[x%s, #%d]"%(b,v),"bi":"[x%s, x%s]"%(b,ix),"pre":"[x%s, #%d]!"%(b,v),"post":"[x%s], #%d"%(b,v)}[mode])
    return ", ".join(out)
def ref_rw(f,ops):
    R=set();W=set();WB=set();RF=set();WF=set()
    if f["isa"]: roles=f["isa"]["roles"]; hidden=f["isa"]["hidden"]
    else:
        n=len(ops); roles=[(True,False)] if n==1 else [(False,True)]+[(True,False)]*(n-1); hidden=[]
    for o,(s,d) in zip(ops,roles):
        if o[0]=="reg":
            if s: R.add(fam(o[1],o[2]))
            if d: W.add(fam(o[1],o[2]))
        elif o[0]=="mem":
            if s or d:
                R.add("g"+o[2])
                if o[3]: R.add("g"+o[3])
                if o[1] in("pre","post"): WB.add("g"+o[2])
    for fl,(s,d) in hidden:
        if s: RF.add(fl)
        if d: WF.add(fl)
    return R,W,WB,RF,WF
def ref_edges(kernel,fd,pidx):
    info=[ref_rw(f,o) for f,o in kernel]; n=len(kernel); E={}
    for a in range(n):
        R,W,WB,RF,WF=info[a]; lat=kernel[a][0]["lat"]
        for r,w in [(r,lat) for r in W]+[(r,pidx) for r in WB]:
            for b in range(a+1,n):
                Rb,Wb,WBb,_,_=info[b]
                if r in Rb or r in WBb: E.setdefault((a,b),set()).add(w)   # write-back base is read too
                if r in Wb or r in WBb: break
        if fd:
            for fl in WF:
                for b in range(a+1,n):
                    if fl in info[b][3]: E.setdefault((a,b),set()).add(lat)
                    if fl in info[b][4]: break
    return E
def run_osaca(pa,pi,text,fd):
    MachineModel._runtime_cache.clear()
    mm=MachineModel(path_to_yaml=pa); sem=ArchSemantics(mm,path_to_yaml=pi); p=ParserAArch64()
    k=p.parse_file(text); sem.add_semantics(k)
    return k,KernelDG(k,p,mm,sem,timeout=-1,flag_dependencies=fd)
if __name__=="__main__":
    import sys, shutil
    rnd=random.Random(int(sys.argv[1])); d=tempfile.mkdtemp(); st=collections.Counter()
    for it in range(int(sys.argv[2])):
        spec=gen_spec(rnd); pa,pi=write_models(spec,d)
        for f in os.listdir(d):
            if f.endswith(".pickle"): os.remove(os.path.join(d,f))
        for kk in range(4):
            kern=gen_kernel(rnd,spec,rnd.randint(3,10)); fd=rnd.random()<0.5
            text="".join("%s %s\n"%(f["name"],render(o)) for f,o in kern)
            try: k,dg=run_osaca(pa,pi,text,fd)
            except Exception as e:
                st["exc:"+type(e).__name__]+=1
                if st["exc:"+type(e).__name__]<3:
                    import traceback; traceback.print_exc(); print(text); [print("   ",f) for f in spec["forms"]]
                continue
            got={(int(a)-1,int(b)-1):dt["latency"] for a,b,dt in dg.dg.edges(data=True) if a==int(a)}
            exp=ref_edges(kern,fd,spec["pidx"]); st["cases"]+=1; st["edges"]+=len(exp)
            if set(got)!=set(exp):
                st["edge_mismatch"]+=1
                if st["edge_mismatch"]<=4: print("MISMATCH fd",fd,"\n"+text,"missing",set(exp)-set(got),"extra",set(got)-set(exp)); [print("   ",f) for f in spec["forms"]]
            else:
                for e in got:
                    if got[e] not in exp[e]:
                        st["w_mismatch"]+=1
                        if st["w_mismatch"]<=3: print("WEIGHT",e,got[e],exp[e],"\n"+text); [print("   ",f) for f in spec["forms"]]
                    elif len(exp[e])>1: st["multi_reason"]+=1
    shutil.rmtree(d); print(dict(st))
