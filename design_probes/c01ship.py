import sys, random, itertools, collections, traceback
sys.path.insert(0,"/tmp/exp")
from osaca.semantics import MachineModel, ArchSemantics, KernelDG
from osaca.parser import ParserX86ATT, ParserAArch64
from osaca.parser.instruction_form import InstructionForm
from osaca.parser.register import RegisterOperand
from osaca.parser.memory import MemoryOperand
from osaca.parser.immediate import ImmediateOperand
from osaca.parser.identifier import IdentifierOperand
from osaca.parser.condition import ConditionOperand
from osaca.parser.prefetch import PrefetchOperand
from osaca.frontend import Frontend
import c07a
def synth_x86(op, rnd):
    if isinstance(op, RegisterOperand):
        n=op.name
        if n in ("gpr","*") or n is None: return RegisterOperand(name=rnd.choice(["rax","rbx","rcx","r8"]))
        if n in ("mm","xmm","ymm","zmm"): return RegisterOperand(name=n+str(rnd.randrange(4)))
        if n=="k": return RegisterOperand(name="k1")
        return RegisterOperand(name=n)
    if isinstance(op, MemoryOperand):
        def r(x,d):
            if x is None: return None
            nm=x.name if isinstance(x,RegisterOperand) else x
            if nm in("gpr","*"): return RegisterOperand(name=d)
            if nm in("xmm","ymm","zmm"): return RegisterOperand(name=nm+"2")
            return RegisterOperand(name=nm)
        off=None
        if op.offset in("imd","*"): off=ImmediateOperand(value=8)
        elif op.offset is not None: off=IdentifierOperand(name="foo")
        sc=1 if op.scale==1 else 8
        return MemoryOperand(offset=off,base=r(op.base,"rsi"),index=r(op.index,"rdi"),scale=sc)
    if isinstance(op, ImmediateOperand): return ImmediateOperand(imd_type="int",value=1)
    if isinstance(op, IdentifierOperand): return IdentifierOperand(name=".L1")
    return None
def hall(p, uops, ports):
    used=set(); 
    for c,ps in uops: used|=set(ps)
    worst=0
    for i,x in enumerate(p):
        if x<0: worst=max(worst,-x)
        if ports[i] not in used and abs(x)>0: worst=max(worst,abs(x))
    tot=sum(c for c,_ in uops); worst=max(worst,abs(sum(p)-tot))
    sets=list({frozenset(ps) for c,ps in uops})
    for r in range(1,len(sets)+1):
        for comb in itertools.combinations(sets,r):
            U=frozenset().union(*comb); need=sum(c for c,ps in uops if set(ps)<=U); have=sum(p[ports.index(q)] for q in U)
            worst=max(worst,need-have)
    return worst
def overlapping(uops):
    ss=[frozenset(ps) for c,ps in uops]; return any(a!=b and a&b for a in ss for b in ss)
rnd=random.Random(int(sys.argv[1])); N=int(sys.argv[2])
archs=sys.argv[3:] or "snb ivb hsw icl icx spr zen1 zen2 zen3 zen4 tx2 n1 a64fx tsv110 a72 m1 v2".split()
stat=collections.Counter(); shown=collections.Counter()
for a in archs:
    mm=MachineModel(arch=a); sem=ArchSemantics(mm); isa=mm.get_ISA(); ports=mm.get_ports()
    p=ParserX86ATT() if isa=="x86" else ParserAArch64()
    entries=[(n,f) for n,fs in mm["instruction_forms_dict"].items() for f in fs]
    fe=Frontend(arch=a)
    for it in range(N):
        k=[]
        for j in range(rnd.randint(2,8)):
            n,f=rnd.choice(entries)
            ops=[(synth_x86(o,rnd) if isa=="x86" else c07a.synth(o)) for o in f.operands]
            if any(o is None for o in ops): stat["unsynth"]+=1; continue
            k.append(InstructionForm(mnemonic=n.lower(),operands=ops,line="%s #%d"%(n.lower(),j),line_number=len(k)+1))
        if not k: continue
        mode=rnd.choice([0,1,2])
        try:
            sem.add_semantics(k)
            for _ in range(mode): sem.assign_optimal_throughput(k)
            dg=KernelDG(k,p,mm,sem,timeout=-1)
            d=fe.full_analysis_dict(k,dg); t=fe.full_analysis(k,dg,ignore_unknown=True)
        except Exception as e:
            key="EXC:%s:%s"%(type(e).__name__,str(e)[:50]); stat[key]+=1
            if shown[key]<1: shown[key]+=1; print(a,"mode",mode,key,[ (i.mnemonic) for i in k]); traceback.print_exc(limit=3)
            continue
        stat["ok"]+=1
        for i in k:
            u=i.port_uops if not isinstance(i.port_uops,dict) else list(i.port_uops.values())[0]
            if "tp_unknown" in i.flags and not u: continue
            try: w=hall(i.port_pressure,u,ports)
            except Exception as e: stat["hallexc:"+repr(e)[:40]]+=1; continue
            tol=1e-9 if mode==0 else 0.01*max(1,len(u))*mode+1e-9
            if w>tol:
                cls="ov" if overlapping(u) else "nov"
                stat["viol_mode%d_%s"%(mode,cls)]+=1
                if shown["v%d%s"%(mode,cls)]<2: shown["v%d%s"%(mode,cls)]+=1; print(a,"VIOL mode",mode,cls,i.mnemonic,round(w,3),[round(x,3) for x in i.port_pressure],u)
print(dict(stat))
