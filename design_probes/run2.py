import sys, random, tempfile, shutil, collections
from syn2 import *
seed=int(sys.argv[1]); N=int(sys.argv[2])
rnd=random.Random(seed)
d=tempfile.mkdtemp()
stats=collections.Counter()
for it in range(N):
    spec=gen_spec(rnd); pa,pi=write_models(spec,d)
    for f in os.listdir(d):
        if f.endswith(".pickle"): os.remove(os.path.join(d,f))
    for kk in range(4):
        kern=gen_kernel(rnd,spec,rnd.randint(3,12)); fd=rnd.random()<0.5
        text="".join("%s %s\n"%(f["name"],render(ops)) for f,ops in kern)
        try:
            k,dg=run_osaca(pa,pi,text,fd)
        except Exception as e:
            stats["exc:"+type(e).__name__]+=1
            if stats["exc:"+type(e).__name__]<3:
                import traceback; traceback.print_exc(); print(text)
            continue
        got={(int(a)-1,int(b)-1):dt["latency"] for a,b,dt in dg.dg.edges(data=True) if a==int(a)}
        exp=ref_edges(kern,fd,spec["stlf"])
        stats["cases"]+=1; stats["edges"]+=len(exp)
        if set(got)!=set(exp):
            stats["edge_mismatch"]+=1
            if stats["edge_mismatch"]<=4:
                print("MISMATCH flagdeps",fd); print(text); print(" missing",set(exp)-set(got)," extra",set(got)-set(exp))
                for f in spec["forms"]: print("   ",f)
        else:
            for e in got:
                if got[e] not in exp[e]:
                    stats["weight_mismatch"]+=1
                    if stats["weight_mismatch"]<=3: print("WEIGHT",e,got[e],exp[e]); print(text); [print("   ",f) for f in spec["forms"]]
shutil.rmtree(d)
print(dict(stats))
