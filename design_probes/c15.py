import sys, collections
from osaca.semantics import MachineModel
archs="snb ivb hsw icl icx spr zen1 zen2 zen3 zen4 tx2 n1 a64fx tsv110 a72 m1 v2".split()
for a in archs:
    mm=MachineModel(arch=a)
    ports=mm.get_ports()
    bad=collections.Counter(); ex={}
    n=0
    for name,forms in mm["instruction_forms_dict"].items():
        for f in forms:
            n+=1
            pp=f.port_pressure
            alts = list(pp.values()) if isinstance(pp,dict) else [pp]
            for alt in alts:
                if alt is None: bad["none"]+=1; continue
                try:
                    for u in alt:
                        if not (isinstance(u,(list,tuple)) and len(u)==2): bad["shape"]+=1; ex.setdefault("shape",(name,alt)); continue
                        c,ps=u
                        if not isinstance(c,(int,float)) or c<0: bad["cycles"]+=1; ex.setdefault("cycles",(name,alt))
                        if len(ps)==0: bad["emptyports"]+=1; ex.setdefault("emptyports",(name,alt))
                        for p in ps:
                            if p not in ports: bad["port"]+=1; ex.setdefault("port",(name,alt))
                except Exception as e:
                    bad["exc"]+=1; ex.setdefault("exc",(name,alt,repr(e)))
            for k in ("throughput","latency"):
                v=getattr(f,k)
                if v is not None and (not isinstance(v,(int,float)) or v<0): bad[k]+=1; ex.setdefault(k,(name,v))
    print(a, n, len(mm["instruction_forms"]), dict(bad), ex)
    for key in ("load_throughput","store_throughput"):
        for m,pp in mm[key]:
            for u in pp:
                for p in u[1]:
                    if p not in ports: print("   ",key,"badport",p,pp)
    for key in ("load_throughput_default","store_throughput_default"):
        try:
            for u in mm[key]:
                for p in u[1]:
                    if p not in ports: print("   ",key,"badport",p,mm[key])
        except Exception as e: print("   ",key,"EXC",repr(e), mm.get(key))
