import random, itertools, tempfile, sys, copy, collections
from synth import *
rnd = random.Random(int(sys.argv[1]))
N=int(sys.argv[2])
def exact_opt(uops_all):
    sets=list({frozenset(ps) for c,ps in uops_all})
    best=0
    for r in range(1,len(sets)+1):
        for comb in itertools.combinations(sets,r):
            U=frozenset().union(*comb)
            tot=sum(c for c,ps in uops_all if set(ps)<=U)
            best=max(best,tot/len(U))
    return best
def overlapping(uops):
    ss=[frozenset(ps) for c,ps in uops]
    return any(a!=b and a&b for a in ss for b in ss)
d=tempfile.mkdtemp()
res=collections.Counter(); worst={}
for it in range(N):
    nports=rnd.randint(2,5); ports=[str(i) for i in range(nports)]
    forms=[]; nforms=rnd.randint(1,4)
    for f in range(nforms):
        uops=[[rnd.choice([1,1,1,2,3,0.5]), rnd.sample(ports,rnd.randint(1,nports))] for u in range(rnd.randint(1,3))]
        forms.append(("f%d"%f,2,1.0,1,repr(uops)))
    mm=mk_model(ports,forms,d); MachineModel._runtime_cache.clear()
    sem=ArchSemantics(mm); p=ParserX86ATT()
    code="".join("f%d %%rax, %%rbx\n"%rnd.randrange(nforms) for _ in range(rnd.randint(1,8)))
    k=p.parse_file(code); sem.add_semantics(k)
    allu=[u for i in k for u in i.port_uops]
    if len({frozenset(ps) for c,ps in allu})>8: continue
    o=exact_opt(allu); fixed=max(sem.get_throughput_sum(k))
    ov=any(overlapping(i.port_uops) for i in k)
    for pas in (1,2):
        sem.assign_optimal_throughput(k); b=max(sem.get_throughput_sum(k))
        key=(pas,ov)
        res[key,"n"]+=1
        if b>fixed+1e-9: res[key,"worse_than_fixed"]+=1
        if b<o-0.01-1e-9: res[key,"undercut"]+=1
        worst[key]=min(worst.get(key,0), b-o)
        worst[key,"gap"]=max(worst.get((key,"gap"),0), b-o)
print(sorted(res.items())); print(worst)
