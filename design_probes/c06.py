from osaca.parser import ParserAArch64, ParserX86ATT
from osaca.semantics import MachineModel, ArchSemantics, KernelDG
def run(arch, code, flag=False):
    mm=MachineModel(arch=arch); sem=ArchSemantics(mm)
    p = ParserX86ATT() if mm.get_ISA()=="x86" else ParserAArch64()
    k=p.parse_file(code); sem.add_semantics(k)
    dg=KernelDG(k,p,mm,sem,flag_dependencies=flag)
    print(arch, code.strip().replace("\n"," ; "))
    for i in k: print("   ", i.line_number, i.line.strip(), "lat",i.latency, i.latency_wo_load, i.flags, "src",[str(type(x).__name__) for x in i.semantic_operands["source"]], "dst",[str(type(x).__name__) for x in i.semantic_operands["destination"]], "sd",[str(type(x).__name__) for x in i.semantic_operands["src_dst"]])
    print("   edges", [(a,b,d["latency"]) for a,b,d in dg.dg.edges(data=True)])
    print("   stlf", mm.get("store_to_load_forward_latency"))
    return dg
#run("tx2", "str x1, [x2, #8]\nldr x3, [x2, #8]\n")
#run("tx2", "str x1, [x2, #8]\nadd x2, x2, #8\nldr x3, [x2]\n")
#run("tx2", "str x1, [x2, #8]\nldr x3, [x2, #16]\n")
#run("tx2", "str x1, [x2, #8]\nldr x3, [x4, #8]\n")
#run("zen2", "movq %rax, 8(%rbx)\nmovq 8(%rbx), %rcx\n")
#run("zen2", "movq %rax, 8(%rbx)\naddq $8, %rbx\nmovq (%rbx), %rcx\n")
#run("zen2", "movq %rax, 8(%rbx)\nmovq 16(%rbx), %rcx\n")
#run("zen2", "movq %rax, 8(%rbx)\nmovq 8(%rdx), %rcx\n")
#run("zen2", "movq %rax, 8(%rbx,%rsi,4)\nmovq 8(%rbx,%rsi,4), %rcx\n")
#run("zen2", "movq %rax, 8(%rbx,%rsi,4)\nmovq 8(%rbx,%rdi,4), %rcx\n")
#run("zen2", "movq %rax, 8(%rbx,%rsi,4)\nincq %rsi\nmovq 4(%rbx,%rsi,4), %rcx\n")
#run("zen2", "movq %rax, 8(%rbx)\nmovq %rbx, %rdx\nmovq 8(%rdx), %rcx\n")
if __name__=="__main__":
    for code in ["str x1, [x2, #8]\nldr x3, [x2, #8]\n","str x1, [x2, #8]\nadd x2, x2, #8\nldr x3, [x2]\n","str x1, [x2, #8]\nldr x3, [x2, #16]\n","str x1, [x2, #8]\nldr x3, [x4, #8]\n",
      "str x1, [x2], #8\nldr x3, [x2, #-8]\n", "str x1, [x2, #8]!\nldr x3, [x2]\n", "str x1, [x2, x5, lsl #3]\nldr x3, [x2, x5, lsl #3]\n", "str x1, [x2, x5, lsl #3]\nldr x3, [x2, x5, lsl #2]\n",
      "str x1, [x2, #8]\nsub x2, x2, #8\nldr x3, [x2, #16]\n", "str x1, [x2, #8]\nmov x4, x2\nldr x3, [x4, #8]\n", "str x1, [sp, #8]\nldr x3, [sp, #8]\n", "str x1, [x2, #8]\nstr x7, [x2, #8]\nldr x3, [x2, #8]\n","stp x1, x6, [x2, #8]\nldr x3, [x2, #8]\n", "str q1, [x2, #16]\nldr q3, [x2, #16]\n"]:
        run("tx2", code)
