import re, sys, glob, random, tempfile, os, io
from ruamel.yaml import YAML
from cli import *
def parse_report(rep):
    L=rep.splitlines()
    i=L.index("Combined Analysis Report")
    hdr=L[i+3]           # port header line
    # column spans from header: after 5 filler chars comes '|' then cells separated by '|' or '-' 
    assert hdr[:5]=="     " and hdr[5]=="|", repr(hdr)
    spans=[]; names=[]
    pos=6; cur=pos
    k=pos
    while k<len(hdr):
        if hdr[k] in "|-":
            cell=hdr[cur:k]
            if cell.strip()=="" and hdr[k]=="|":   # the '||' before CP
                break
            names.append(cell.strip()); spans.append((cur,k)); cur=k+1
        k+=1
    # after ports: "|  CP  | LCD  |"
    rest=hdr[k+1:]
    m=re.match(r"^(\s*CP\s*)\|(\s*LCD\s*)\|$",rest); assert m, repr(rest)
    cp_span=(k+1,k+1+len(m.group(1))); lcd_span=(cp_span[1]+1,cp_span[1]+1+len(m.group(2)))
    rows=[]; summary=None; j=i+5
    while j<len(L) and L[j].strip()!="":
        l=L[j]
        ln=int(l[:4]); cells=[l[a:b].strip() for a,b in spans]
        cp=l[cp_span[0]:cp_span[1]].strip(); lcd=l[lcd_span[0]:lcd_span[1]].strip()
        tail=l[lcd_span[1]+1:]   # " F text"
        rows.append(dict(line=ln,cells=cells,cp=cp,lcd=lcd,flag=tail[1:3].strip() if len(tail)>2 else "",text=tail[3:] if len(tail)>3 else ""))
        j+=1
    j+=1
    tail_lines=L[j:]
    summ=None; warn=None
    if tail_lines and tail_lines[0].startswith("     ") and "WARNING" not in tail_lines[0]:
        l=tail_lines[0]
        summ=dict(cells=[l[a:b].strip() for a,b in spans], rest=l[spans[-1][1]:].split())
    m=re.search(r"performance data for (\d+) instructions is missing",rep)
    lcdlist=[]
    if "Loop-Carried Dependencies Analysis Report" in L:
        q=L.index("Loop-Carried Dependencies Analysis Report")+2
        while q<len(L) and L[q].strip():
            mm=re.match(r"\s*(\d+) \|\s*([\d.]+) \| .*\| \[([\d, ]*)\]$",L[q]); 
            lcdlist.append((int(mm.group(1)),float(mm.group(2)),[int(x) for x in mm.group(3).split(",") if x.strip()])); q+=1
    return dict(ports=names,rows=rows,summary=summ,missing=int(m.group(1)) if m else None,lcds=lcdlist,
                archwarn="No micro-architecture was specified" in rep, lenwarn="large amount of instruction forms" in rep, lcdwarn="LCD analysis timed out" in rep)
def close(cell,val):
    if cell=="": return None
    d=len(cell.split(".")[1]) if "." in cell else 0
    return abs(float(cell)-val)<=0.5*10**-d+1e-9
def check(argv):
    d=tempfile.mkdtemp(); y=os.path.join(d,"o.yml")
    rep=run_inproc(argv[:-1]+["--yaml-out",y,argv[-1]])
    # yaml_out file handle opened by argparse isn't closed -> flush by reading after gc; reopen
    import gc; gc.collect()
    data=YAML(typ="unsafe",pure=True).load(open(y))
    pr=parse_report(rep)
    errs=[]
    if pr["ports"]!=data["Target"]["Ports"]: errs.append(("ports",pr["ports"],data["Target"]["Ports"]))
    krn=data["Kernel"]
    if len(krn)!=len(pr["rows"]): errs.append(("nrows",len(krn),len(pr["rows"])))
    for r,kx in zip(pr["rows"],krn):
        if r["line"]!=kx["LineNumber"]: errs.append(("lineno",r["line"],kx["LineNumber"]))
        used={p for u in kx["PortUops"] for p in u["Ports"]}
        for name,cell in zip(pr["ports"],r["cells"]):
            v=kx["PortPressure"][name]
            c=close(cell,v)
            if c is None:
                if v!=0.0 or name in used: errs.append(("blankcell",r["line"],name,v))
            elif not c: errs.append(("cell",r["line"],name,cell,v))
        if (r["cp"]=="")!=(kx["LatencyCP"]==0) and r["cp"]=="" : errs.append(("cpblank",r["line"],kx["LatencyCP"]))
        if r["cp"]!="" and abs(float(r["cp"])-kx["LatencyCP"])>1e-9: errs.append(("cp",r["line"],r["cp"],kx["LatencyCP"]))
        if r["lcd"]!="" and abs(float(r["lcd"])-kx["LatencyLCD"])>1e-9: errs.append(("lcd",r["line"],r["lcd"],kx["LatencyLCD"]))
        if ("X" in r["flag"])!=("tp_unknown" in kx["Flags"]): errs.append(("X",r["line"],r["flag"],kx["Flags"]))
    unk=sum(1 for kx in krn if "tp_unknown" in kx["Flags"])
    ign="--ignore-unknown" in argv
    if unk and not ign:
        if pr["summary"] is not None: errs.append(("summary_despite_unknown",))
        if pr["missing"]!=unk: errs.append(("missingcount",pr["missing"],unk))
    else:
        if pr["summary"] is None: errs.append(("nosummary",))
        else:
            for name,cell in zip(pr["ports"],pr["summary"]["cells"]):
                v=data["Summary"]["PortPressure"][name]; c=close(cell,v)
                if c is None and v!=0: errs.append(("sumblank",name,v))
                if c is False: errs.append(("sumcell",name,cell,v))
            cp,lcd=pr["summary"]["rest"][-2:]
            if abs(float(cp)-data["Summary"]["CriticalPath"])>1e-9: errs.append(("sumcp",cp,data["Summary"]["CriticalPath"]))
            if abs(float(lcd)-data["Summary"]["LCD"])>1e-9: errs.append(("sumlcd",lcd,data["Summary"]["LCD"]))
    return errs, pr, data
if __name__=="__main__":
    rnd=random.Random(1); files=sorted(glob.glob("/repo/examples/*/*.s"))+glob.glob("/repo/tests/test_files/kernel_*.s")
    import collections; agg=collections.Counter(); n=0
    for it in range(int(sys.argv[1])):
        f=rnd.choice(files); 
        if "copy" in f or "long_LCD" in f: continue
        isa="aarch64" if (".tx2." in f or "aarch64" in f) else "x86"
        arch=rnd.choice(["zen2","icx","spr","hsw","zen4","snb","icl","ivb","zen1","zen3"] if isa=="x86" else ["tx2","a64fx","v2","n1","m1","a72","tsv110"])
        argv=["--arch",arch]+rnd.choice([[],["--fixed"]])+rnd.choice([[],["--ignore-unknown"]])+[f]
        try: errs,pr,data=check(argv)
        except Exception as e:
            agg["EXC "+type(e).__name__]+=1
            if agg["EXC "+type(e).__name__]<3: import traceback; traceback.print_exc(); print(argv)
            continue
        n+=1
        for e in errs: agg[e[0]]+=1
        if errs and agg["shown"]<6: agg["shown"]+=1; print(argv, errs[:5])
    print(n, dict(agg))
