import random, sys, collections
from osaca.parser import ParserX86ATT
from osaca.parser.register import RegisterOperand
from osaca.parser.memory import MemoryOperand
from osaca.parser.immediate import ImmediateOperand
from osaca.parser.identifier import IdentifierOperand
p=ParserX86ATT()
rnd=random.Random(int(sys.argv[1])); N=int(sys.argv[2])
G64="rax rbx rcx rdx rsi rdi rbp rsp r8 r9 r10 r11 r12 r13 r14 r15".split()
G32="eax ebx ecx edx esi edi ebp esp r8d r9d r10d r11d r12d r13d r14d r15d".split()
G16="ax bx cx dx si di bp sp r8w r9w r10w r11w r12w r13w r14w r15w".split()
G8="al bl cl dl sil dil bpl spl r8b r9b r10b r11b r12b r13b r14b r15b ah bh ch dh".split()
VEC=["%smm%d"%(c,n) for c in "xyz" for n in range(32)]
MNE="mov movq addq vaddpd vfmadd231pd lea leaq cmpl jne vmovapd imul shlq incq vpinsrq call ret nop vextractf128 movabsq movzbl cvtsi2sd".split()
def ws(): return rnd.choice([""," ","  ","\t"," \t"])
def gen_op(first):
    k=rnd.choice(["reg","reg","imm","mem","mem","lab"] if first else ["reg","reg","imm","mem","mem"])
    if k=="reg":
        r=rnd.choice(rnd.choice([G64,G32,G16,G8,VEC])); return ("reg",r), "%"+r
    if k=="imm":
        v=rnd.choice([0,1,-1,8,255,-128,2**31-1,-2**31,2**63-1,2**64-1,rnd.randrange(-2**40,2**40)])
        if rnd.random()<0.5: s=("-" if v<0 else "")+"0x%x"%abs(v) if rnd.random()<0.7 else ("-" if v<0 else "")+"0x%X"%abs(v)
        else: s=str(v)
        return ("imm",v), "$"+ws()*0+s
    if k=="lab":
        l=rnd.choice([".L1",".LBB0_3","foo","_bar.baz","..B1.4","loop2"]); return ("id",l), l
    # mem
    while True:
        hb,hi,hd=rnd.random()<0.6,rnd.random()<0.5,rnd.random()<0.6
        if hb or hi: break
    b=rnd.choice(G64) if hb else None; i=rnd.choice(G64) if hi else None
    d=rnd.choice([0,8,-8,16,1024,-4096,0x7fffffff,rnd.randrange(-10000,10000)]) if hd else None
    sc=rnd.choice([None,1,2,4,8]) if hi else None
    ds="" if d is None else (str(d) if rnd.random()<0.6 else ("-" if d<0 else "")+"0x%x"%abs(d))
    if not hb and not hi: return ("mem",d,None,None,1), ds
    inner=ws()+("%"+b if b else "")
    if i:
        inner+=ws()+","+ws()+"%"+i
        if sc is not None: inner+=ws()+","+ws()+str(sc)
    inner+=ws()
    return ("mem",d,b,i,sc or 1), ds+"("+inner+")"
def canon(o):
    if isinstance(o,RegisterOperand): return ("reg",o.name)
    if isinstance(o,ImmediateOperand): return ("imm",o.value)
    if isinstance(o,IdentifierOperand): return ("id",o.name)
    if isinstance(o,MemoryOperand):
        off=o.offset
        offv = None if off is None else (off.value if isinstance(off,ImmediateOperand) else ("id",off.name))
        return ("mem",offv,o.base.name if o.base else None,o.index.name if o.index else None,o.scale)
    return ("?",str(o))
bad=collections.Counter(); shown=0
for it in range(N):
    m=rnd.choice(MNE); n=rnd.randint(0,4)
    ops=[gen_op(j==0) for j in range(n)]
    line=ws()+m+(" "+ws() if n else "")+(ws()+","+ws()).join(t for _,t in ops)+ws()
    if rnd.random()<0.3: line+=rnd.choice([" # comment x"," #c","# a b c"," // icc style"])
    exp=[a for a,_ in ops]
    try:
        f=p.parse_line(line,7)
        got=[canon(o) for o in f.operands]
        ok = f.mnemonic==m and got==exp and f.line==line and f.line_number==7 and f.label is None and f.directive is None
    except Exception as e:
        ok=False; got=repr(e)[:80]; f=None
    if not ok:
        key=tuple(a[0] for a in exp)
        bad[key]+=1
        if shown<25: shown+=1; print(repr(line),"\n   exp",m,exp,"\n   got",(f.mnemonic if f else None),got, (f.label,f.directive,f.comment) if f else "")
print(N, sum(bad.values()), bad.most_common(12))
