import random, sys, tempfile, os, subprocess, io, math
from ruamel.yaml import YAML
from cli import run_inproc
rnd=random.Random(int(sys.argv[1]))
X86=["r","x","y","z","i"]+["m"+s for s in ["b","bo","bi","boi","bis","bois","o","oi","ois"]]
A64=list("wxbhsdq")+["v","vb","vh","vs","vd","i"]+["m"+s for s in ["b","bo","bi","boi","bis","bois","bor","bop","bp","br"]]
def dec_x86(c):
    if c=="r": return {"class":"register","name":"gpr"}
    if c in "xyz": return {"class":"register","name":c+"mm"}
    if c=="i": return {"class":"immediate","imd":"int"}
    return {"class":"memory","base":"gpr" if "b" in c else None,"offset":"imd" if "o" in c else None,"index":"gpr" if "i" in c[1:] else None,"scale":8 if "s" in c else 1}
def dec_a64(c):
    if c=="i": return {"class":"immediate","imd":"int"}
    if c in "wxbhsdq": return {"class":"register","prefix":c}
    if c[0]=="v": return {"class":"register","prefix":"v","shape":c[1:2] or "d"}
    return {"class":"memory","base":"x" if "b" in c else None,"offset":"imd" if "o" in c else None,"index":"gpr" if "i" in c[1:] else None,"scale":8 if "s" in c else 1,"pre_indexed":"r" in c,"post_indexed":"p" in c}
def snap_tp(m):
    hits=[n for n in range(1,11) if abs(m-1/n)<=0.05/n+1e-12]
    return round(1/hits[0],5) if hits else None
def snap_lt(m):
    n=round(m)
    f,c=math.floor(m),math.ceil(m)
    if m<=1.05*f+1e-12 or m>=0.95*c-1e-12: return float(round(m))
    return None
def meas(kind):
    if kind=="tp":
        n=rnd.randint(1,12); return (1/n)*rnd.choice([1,1.03,0.97,1.049,0.951,1.08,0.9,1.2])
    n=rnd.randint(0,30); return max(0.0,n*rnd.choice([1,1.03,0.97,1.049,1.08,0.9])+rnd.choice([0,0,0.3,0.5]))
d=tempfile.mkdtemp(); bad=0
for it in range(int(sys.argv[2])):
    isa,arch=rnd.choice([("x86","zen1"),("aarch64","tx2")])
    codes=X86 if isa=="x86" else A64; dec=dec_x86 if isa=="x86" else dec_a64
    forms={}
    for k in range(rnd.randint(1,5)):
        name="tst%d%s"%(it,"abcde"[k])+"-"+"_".join(rnd.choice(codes) for _ in range(rnd.randint(1,3)))
        forms[name]=(round(meas("tp"),3),round(meas("lt"),3))
    bench=rnd.choice(["ibench","asmbench"])
    p=os.path.join(d,"in.dat")
    with open(p,"w") as f:
        if bench=="ibench":
            f.write("Using frequency 2.50GHz.\n")
            for n,(tp,lt) in forms.items():
                ls=["%s-TP:   %.3f (clock cycles)    [DEBUG - result: 1.0]\n"%(n,tp),"%s-LT:   %.3f (clock cycles)    [DEBUG - result: 1.0]\n"%(n,lt)]
                if rnd.random()<0.5: ls.reverse()
                f.writelines(ls)
        else:
            for n,(tp,lt) in forms.items(): f.write("%s\nLatency: %.3f cy\nThroughput: %.3f cy\n\n"%(n,lt,tp))
    import warnings
    with warnings.catch_warnings():
        warnings.simplefilter("ignore")
        out=run_inproc(["--arch",arch,"--import",bench,p])
    data=YAML(typ="safe").load(out)
    got={}
    for e in data["instruction_forms"]:
        nm=e.get("mnemonic", e.get("name"))
        if isinstance(nm,str) and nm.startswith("tst%d"%it): got.setdefault(nm,[]).append(e)
    for n,(tp,lt) in forms.items():
        mn,ops=n.split("-"); exp_ops=[dec(c) for c in ops.split("_")]
        es=got.get(mn,[])
        if len(es)!=1: bad+=1; print("COUNT",n,len(es)); continue
        e=es[0]
        def proj(o,ref): return {k:o.get(k) for k in ref}
        gops=[proj(o,r) for o,r in zip(e["operands"],exp_ops)]
        ok = gops==exp_ops and len(e["operands"])==len(exp_ops) and e["throughput"]==snap_tp(tp) and e["latency"]==snap_lt(lt)
        if not ok:
            bad+=1; print("MISMATCH",bench,isa,n,tp,lt,"got",e["throughput"],e["latency"],"exp",snap_tp(tp),snap_lt(lt)); 
            if gops!=exp_ops: print("   ops",gops,exp_ops)
print("bad",bad)
