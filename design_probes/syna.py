import os, tempfile
from osaca.semantics import MachineModel, ArchSemantics, KernelDG
from osaca.parser import ParserAArch64
A="""osaca_version: 0.5.0
micro_architecture: SynthA
arch_code: SYNA
isa: AArch64
hidden_loads: false
load_latency: {w: 4.0, x: 4.0, b: 4.0, h: 4.0, s: 4.0, d: 5.0, q: 6.0, v: 6.0, z: 6.0}
p_index_latency: 2
load_throughput:
- {base: x, index: ~, offset: ~, scale: 1, pre_indexed: false, post_indexed: false, port_pressure: [[1, '2']]}
- {base: x, index: ~, offset: imd, scale: 1, pre_indexed: false, post_indexed: false, port_pressure: [[2, '2']]}
load_throughput_default: [[3, '2']]
store_throughput:
- {base: x, index: ~, offset: ~, scale: 1, pre_indexed: false, post_indexed: false, port_pressure: [[1, '3']]}
- {base: x, index: ~, offset: imd, scale: 1, pre_indexed: false, post_indexed: false, port_pressure: [[2, '3']]}
store_throughput_default: [[3, '3']]
ports: ['0', '1', '2', '3']
instruction_forms:
- name: foo
  operands:
  - class: register
    prefix: x
  - class: register
    prefix: x
  throughput: 1.0
  latency: 2.0
  port_pressure: [[1, '01']]
- name: bar
  operands:
  - class: register
    prefix: x
  - class: register
    prefix: x
  throughput: 1.0
  latency: 3.0
  port_pressure: [[1, '0']]
"""
I="""osaca_version: 0.5.0
isa: AArch64
instruction_forms:
- name: bar
  operands:
  - class: register
    prefix: x
    source: true
    destination: false
  - class: memory
    base: '*'
    offset: '*'
    index: '*'
    scale: '*'
    pre_indexed: '*'
    post_indexed: '*'
    source: false
    destination: true
"""
d=tempfile.mkdtemp(); open(d+"/a.yml","w").write(A); open(d+"/i.yml","w").write(I)
mm=MachineModel(path_to_yaml=d+"/a.yml"); sem=ArchSemantics(mm,path_to_yaml=d+"/i.yml"); p=ParserAArch64()
k=p.parse_file("foo x1, [x2]\nfoo x1, [x2, #8]\nbar x1, [x2]\nbar x1, [x2, #8]\nfoo x1, [x2, x3]\n"); sem.add_semantics(k)
for i in k: print(i.line, i.flags, i.port_uops, i.port_pressure, i.throughput, i.latency, i.latency_wo_load)
