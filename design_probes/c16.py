import time, sys
from osaca.parser import ParserX86ATT, ParserAArch64
from osaca.semantics import MachineModel, ArchSemantics, KernelDG, reduce_to_section
import osaca.semantics.kernel_dg as kd
def lcd(arch, path, thr, ncpu, timeout=-1):
    mm=MachineModel(arch=arch); sem=ArchSemantics(mm)
    isa=mm.get_ISA(); p=ParserX86ATT() if isa=="x86" else ParserAArch64()
    k=reduce_to_section(p.parse_file(open(path).read()), isa); sem.add_semantics(k)
    KernelDG.INSTRUCTION_THRESHOLD=thr; kd.cpu_count=lambda: ncpu
    t=time.time(); dg=KernelDG(k,p,mm,sem,timeout=timeout); dt=time.time()-t
    l=dg.get_loopcarried_dependencies()
    return {key:(v["latency"],[(n.line_number,lat) for n,lat in v["dependencies"]]) for key,v in l.items()}, list(l.keys()), dt, len(k)
for arch,path in [("zen2","/repo/examples/gs/gs.s.csx.gcc.s"),("tx2","/repo/examples/gs/gs.s.tx2.gcc.s"),("icx","/repo/tests/test_files/kernel_x86.s")]:
    ref,order,dt,n=lcd(arch,path,10**9,1)
    print(arch,path,n,"seq",len(ref),round(dt,3))
    for ncpu in (1,2,3,5,16,n+3):
        got,order2,dt,_=lcd(arch,path,1,ncpu)
        print("   ncpu",ncpu,got==ref, order2==order, round(dt,3))
