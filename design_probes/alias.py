import sys, collections
import ruamel.yaml
from osaca.semantics import MachineModel
sys.path.insert(0,"/tmp/exp")
# for each model: positions in file order (entry idx) for each expanded form; detect cases where for some mnemonic an alias-list entry precedes (in file) a single-name entry (or another list entry) of the same mnemonic -> order inverted by loader
y=ruamel.yaml.YAML(typ="safe")
for a in "snb ivb hsw icl icx spr zen1 zen2 zen3 zen4 tx2 n1 a64fx tsv110 a72 m1 v2".split():
    data=y.load(open("/repo/osaca/data/%s.yml"%a))
    forms=data["instruction_forms"]
    lists=sum(1 for f in forms if isinstance(f["name"],list))
    # file order of names
    pos=collections.defaultdict(list)
    for i,f in enumerate(forms):
        for n in (f["name"] if isinstance(f["name"],list) else [f["name"]]):
            pos[str(n).upper()].append((i,isinstance(f["name"],list)))
    inv=0; ex=[]
    for n,l in pos.items():
        # loader order: singles in file order, then list-derived in file order
        loader=[p for p in l if not p[1]]+[p for p in l if p[1]]
        if loader!=l: inv+=1; ex.append(n)
    print(a,"entries",len(forms),"alias-list entries",lists,"mnemonics with reordered candidates",inv,ex[:8])
