import random, sys, collections
from c14 import lcds
rnd=random.Random(int(sys.argv[1])); bad=0; n=0; withmem=0
for it in range(int(sys.argv[2])):
    isa=rnd.choice(["x86","aarch64"])
    if isa=="x86":
        d1=rnd.choice([0,8,16]); k=rnd.choice([8,16,-8]); d2=d1-k if rnd.random()<0.6 else rnd.choice([0,8,24])
        body=["movq %%rax, %d(%%rbx)"%d1, rnd.choice(["addq $%d, %%rbx"%k,"subq $%d, %%rbx"%(-k)]), "movq %d(%%rbx), %%rcx"%d2, "addq %rcx, %rax", "vaddpd %ymm1, %ymm2, %ymm2"]
        arch=rnd.choice(["zen2","icx","hsw"])
    else:
        d1=rnd.choice([0,8,16]); k=rnd.choice([8,16])
        mid=rnd.choice(["add x2, x2, #%d"%k, "ldr x9, [x2], #%d"%k, "ldr x9, [x2, #%d]!"%k, "sub x2, x2, #%d"%k])
        kk = -k if mid.startswith("sub") else k
        d2=d1-kk if rnd.random()<0.6 else rnd.choice([0,8,24])
        body=["str x1, [x2, #%d]"%d1, mid, "ldr x3, [x2, #%d]"%d2, "add x1, x3, x1", "fadd d4, d4, d5"]
        arch=rnd.choice(["tx2","a64fx","n1"])
    rnd.shuffle(body)
    try: base=lcds(arch,body)
    except Exception as e: print("EXC",arch,body,repr(e)[:100]); bad+=1; continue
    n0=len(body)
    for r in range(1,n0):
        rl=body[r:]+body[:r]; got=lcds(arch,rl)
        got={tuple(sorted((i+r)%n0 for i in key)):v for key,v in got.items()}
        n+=1
        if got!=base:
            bad+=1
            if bad<6: print("ROT",arch,body,"r=",r,"\n   base",base,"\n   got ",got)
            break
print(n,bad)
