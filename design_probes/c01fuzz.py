import random, itertools, tempfile, sys, copy
from synth import *
from osaca.parser.instruction_form import InstructionForm
rnd = random.Random(int(sys.argv[1]) if len(sys.argv)>1 else 1)
def hall_violation(p, uops, ports, tol):
    # returns max violation
    used = set()
    for c, ps in uops: used |= set(ps)
    worst = 0
    for i,x in enumerate(p):
        if x < -tol: worst = max(worst, -x)
        if ports[i] not in used and abs(x) > tol: worst = max(worst, abs(x))
    tot = sum(c for c,_ in uops)
    if abs(sum(p)-tot) > tol: worst = max(worst, abs(sum(p)-tot))
    ul = sorted(used)
    for r in range(1, len(ul)+1):
        for S in itertools.combinations(ul, r):
            Ss=set(S)
            need = sum(c for c,ps in uops if set(ps) <= Ss)
            have = sum(p[ports.index(q)] for q in S)
            if have < need - tol: worst = max(worst, need-have)
    return worst
d = tempfile.mkdtemp()
stats = {1:0, 2:0}
worstv = {1:0,2:0}
N=int(sys.argv[2]) if len(sys.argv)>2 else 200
for it in range(N):
    nports = rnd.randint(2,5)
    ports = [str(i) for i in range(nports)]
    forms=[]
    nforms = rnd.randint(1,4)
    for f in range(nforms):
        nu = rnd.randint(1,3)
        uops=[]
        for u in range(nu):
            k = rnd.randint(1,nports)
            ps = rnd.sample(ports,k)
            c = rnd.choice([1,1,1,2,3,0.5])
            uops.append([c, ps])
        forms.append(("f%d"%f, 2, 1.0, 1, repr(uops)))
    mm = mk_model(ports, forms, d)
    MachineModel._runtime_cache.clear()
    sem = ArchSemantics(mm)
    p = ParserX86ATT()
    klen = rnd.randint(1,8)
    code = "".join("f%d %%rax, %%rbx\n" % rnd.randrange(nforms) for _ in range(klen))
    k = p.parse_file(code)
    sem.add_semantics(k)
    for i in k:
        assert hall_violation(i.port_pressure, i.port_uops, ports, 1e-9)==0
    for pas in (1,2):
        sem.assign_optimal_throughput(k)
        w = max(hall_violation(i.port_pressure, i.port_uops, ports, 1e-6) for i in k)
        if w > 0.0:
            stats[pas]+=1
            if w > worstv[pas]:
                worstv[pas]=w
                print("pass",pas,"viol",w, forms, code.replace("\n",";"))
                for i in k: print("   ", [round(x,3) for x in i.port_pressure], i.port_uops)
print(stats, worstv)
