import collections, sys
from osaca.semantics import MachineModel
from osaca.parser import ParserX86ATT, ParserAArch64
from osaca.parser.register import RegisterOperand
from osaca.parser.memory import MemoryOperand
from osaca.parser.immediate import ImmediateOperand
from osaca.parser.identifier import IdentifierOperand
from osaca.parser.condition import ConditionOperand
from osaca.parser.prefetch import PrefetchOperand
px=ParserX86ATT(); pa=ParserAArch64()
def synth_x86(op):
    if isinstance(op, RegisterOperand):
        n=op.name
        if n in ("gpr","*"): return "%rax"
        if n in ("mm","xmm","ymm","zmm"): return "%"+n+"1"
        if n is None: return None
        return "%"+n
    if isinstance(op, MemoryOperand):
        off = "8" if op.offset in ("imd","*") else ("foo" if op.offset=="id" or isinstance(op.offset,IdentifierOperand) else "")
        def r(x, d):
            if x is None: return ""
            nm = x.name if isinstance(x, RegisterOperand) else x
            if nm in ("gpr","*"): return "%"+d
            if nm in ("xmm","ymm","zmm"): return "%"+nm+"2"
            return "%"+nm
        b=r(op.base,"rbx"); i=r(op.index,"rcx")
        sc = op.scale
        s = "" if sc==1 else (",8" if sc in ("*",8) else ","+str(sc))
        if not b and not i: return off or "16"
        inner = b + ("," + i + s if i else "")
        return off+"("+inner+")"
    if isinstance(op, ImmediateOperand): return "$1"
    if isinstance(op, IdentifierOperand): return ".L1"
    return None
archs=sys.argv[1:] or "snb ivb hsw icl icx spr zen1 zen2 zen3 zen4".split()
for a in archs:
    mm=MachineModel(arch=a)
    stat=collections.Counter(); ex=collections.defaultdict(list)
    for name,forms in mm["instruction_forms_dict"].items():
        for f in forms:
            ops=[synth_x86(o) for o in f.operands]
            if any(o is None for o in ops): stat["unsynth"]+=1; ex["unsynth"].append((name,[str(o)[:60] for o in f.operands])); continue
            line=name.lower()+" "+", ".join(ops)
            try: pf=px.parse_line(line,1)
            except Exception as e: stat["parsefail"]+=1; ex["parsefail"].append(line); continue
            if pf.mnemonic is None: stat["notinstr"]+=1; ex["notinstr"].append(line); continue
            got=mm.get_instruction(pf.mnemonic, pf.operands)
            if got is None: stat["nomatch"]+=1; ex["nomatch"].append(line)
            elif got is f: stat["self"]+=1
            else: stat["shadow"]+=1
    print(a, dict(stat)); 
    for k,v in ex.items(): print("   ",k,v[:6])
