import random, glob, sys, re, os, tempfile
from cli import *
from osaca.parser import ParserX86ATT, ParserAArch64
from osaca.semantics import reduce_to_section
rnd=random.Random(int(sys.argv[1]))
def rows(rep):
    out=[]
    inrep=False
    for l in rep.splitlines():
        if l.startswith("Combined Analysis Report"): inrep=True
        if l.startswith("Loop-Carried Dependencies Analysis Report"): inrep=False
        m=re.match(r"\s*(\d+) (\|.*\|\|.*\|)\s(.)\s(.*)$", l) if inrep else None
        if m: out.append((m.group(2),m.group(3),m.group(4)))
        elif inrep and re.match(r"^\s+[\d. ]+$",l) and l.strip(): out.append(("SUM",l.strip()))
    return out
MARK={"x86":(["movl $111, %ebx # start",".byte 100,103,144"],["movl $222, %ebx",".byte 100",".byte 103",".byte 144 # end"]),
      "aarch64":(["mov x1, #111",".byte 213,3,32,31"],["mov x1, #222",".byte 213",".byte 3, 32",".byte 31"])}
CM={"x86":("# OSACA-BEGIN","# OSACA-END"),"aarch64":("// OSACA-BEGIN","// OSACA-END")}
DECOY={"x86":["movl $111, %ecx","movl $112, %ebx","movl $111, %ebx","addq $1, %rax",".byte 100,103,144"],"aarch64":["mov x2, #111","mov x1, #112","mov x1, #111","add x0, x0, #1",".byte 213,3,32,31"]}
bad=0; n=0
d=tempfile.mkdtemp()
files=sorted(glob.glob("/repo/examples/*/*.s"))
for it in range(int(sys.argv[2])):
    f=rnd.choice(files); isa="aarch64" if ".tx2." in f else "x86"
    p=ParserX86ATT() if isa=="x86" else ParserAArch64()
    body=[i.line for i in reduce_to_section(p.parse_file(open(f).read()),isa)]
    if len(body)>40: continue
    arch=rnd.choice(["zen2","icx","hsw"] if isa=="x86" else ["tx2","a64fx","n1"])
    pro=[rnd.choice(DECOY[isa]) for _ in range(rnd.randint(0,4))]; epi=[rnd.choice(DECOY[isa]) for _ in range(rnd.randint(0,4))]
    # decoy "movl $111,%ebx" followed by .byte would be a real marker: avoid that adjacency
    def clean(ls):
        out=[]
        for x in ls:
            if out and out[-1] in ("movl $111, %ebx","mov x1, #111") and x.startswith(".byte"): continue
            out.append(x)
        if out and out[-1] in ("movl $111, %ebx","mov x1, #111"): out.append("nop" if isa=="x86" else "nop")
        return out
    pro=clean(pro); epi=clean(epi)
    style=rnd.choice(["byte","comment"])
    s,e = MARK[isa] if style=="byte" else ([CM[isa][0]],[CM[isa][1]])
    blank=[""]*rnd.randint(0,3)
    full=blank+pro+s+body+e+epi
    p1=os.path.join(d,"m.s"); open(p1,"w").write("\n".join(full)+"\n")
    start=len(blank)+len(pro)+len(s)+1; end=start+len(body)-1
    p2=os.path.join(d,"b.s"); open(p2,"w").write("\n".join(body)+"\n")
    try:
        r1=rows(run_inproc(["--arch",arch,p1]))
        r2=rows(run_inproc(["--arch",arch,"--lines","%d-%d"%(start,end),p1]))
        r3=rows(run_inproc(["--arch",arch,p2]))
    except Exception as ex:
        bad+=1; print("EXC",f,arch,style,repr(ex)[:200]); print("\n".join(full[:12])); continue
    n+=1
    if not (r1==r2==r3):
        bad+=1; print("DIFF",f,arch,style,len(r1),len(r2),len(r3)); 
        for a,b,c in zip(r1,r2,r3):
            if not(a==b==c): print("  ",a,"\n  ",b,"\n  ",c); break
print(n,bad)
