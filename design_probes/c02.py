import itertools, tempfile, time, sys, collections
from synth import *
from osaca.parser.instruction_form import InstructionForm
import copy
d=tempfile.mkdtemp()
ports=['0','1','2']
subsets=[s for r in (1,2,3) for s in itertools.combinations(ports,r)]
forms=[]
for c in (1,2):
    for s in subsets:
        forms.append(("f%dp%s"%(c,"".join(s)),2,1.0,1,repr([[c,list(s)]])))
mm=mk_model(ports,forms,d); sem=ArchSemantics(mm); p=ParserX86ATT()
proto={}
for name,*_ in forms:
    k=p.parse_file("%s %%rax, %%rbx\n"%name); sem.add_semantics(k); proto[name]=k[0]
F1=[f[0] for f in forms[:7]]; F12=[f[0] for f in forms]
kernels=set()
for L in range(1,5):
    for k in itertools.product(F1,repeat=L): kernels.add(k)
for L in range(1,4):
    for k in itertools.product(F12,repeat=L): kernels.add(k)
print(len(kernels))
def opt(kern):
    best=0
    for r in (1,2,3):
        for S in itertools.combinations(ports,r):
            Ss=set(S); tot=sum(proto[n].port_uops[0][0] for n in kern if set(proto[n].port_uops[0][1])<=Ss)
            best=max(best,tot/len(S))
    return best
t=time.time(); worst=collections.Counter(); mx=(0,None); mn=(0,None); worse_than_fixed=0
hist=collections.Counter()
for kern in sorted(kernels):
    k=[copy.deepcopy(proto[n]) for n in kern]
    for i,x in enumerate(k): x.line_number=i+1
    fixed=max(sem.get_throughput_sum(k))
    sem.assign_optimal_throughput(k); one=max(sem.get_throughput_sum(k))
    sem.assign_optimal_throughput(k); two=max(sem.get_throughput_sum(k))
    o=opt(kern)
    if two>fixed+1e-9: worse_than_fixed+=1
    gap=two-o
    hist[round(gap,2)]+=1
    if gap>mx[0]: mx=(gap,kern,one,two,o)
    if gap<mn[0]: mn=(gap,kern,one,two,o)
print(time.time()-t, mx, mn, worse_than_fixed)
print(sorted(hist.items()))
