from osaca.parser import ParserAArch64, ParserX86ATT
from osaca.semantics import MachineModel, ArchSemantics
from osaca.parser.register import RegisterOperand
from osaca.parser.memory import MemoryOperand
from osaca.parser.flag import FlagOperand
def desc(o):
    if isinstance(o,RegisterOperand): return (o.prefix or "")+str(o.name)+("!" if o.pre_indexed or o.post_indexed else "")
    if isinstance(o,MemoryOperand): return "M[%s,%s]"%(desc(o.base) if o.base else None, desc(o.index) if o.index else None)
    if isinstance(o,FlagOperand): return "F:"+o.name
    return type(o).__name__[:3]
def show(arch, lines):
    mm=MachineModel(arch=arch); sem=ArchSemantics(mm); isa=mm.get_ISA()
    p=ParserX86ATT() if isa=="x86" else ParserAArch64()
    for l in lines:
        f=p.parse_line(l,1); sem.assign_src_dst(f); sem.assign_tp_lt(f)
        so=f.semantic_operands
        print("%-42s src=%s dst=%s sd=%s lat=%s/%s %s"%(l,[desc(x) for x in so["source"]],[desc(x) for x in so["destination"]],[desc(x) for x in so["src_dst"]],f.latency,f.latency_wo_load,[x[:6] for x in f.flags]))
if __name__=="__main__": show("zen2", ["addq %rax, %rbx","addq $8, %rbx","subq %rax, %rbx","imulq %rax, %rbx","cmpq %rax, %rbx","testq %rax, %rax","leaq 8(%rax,%rcx,4), %rbx","movq %rax, %rbx","movq (%rax), %rbx","movq %rbx, (%rax)","xorl %eax, %eax","xorl %eax, %ebx","vxorpd %ymm0, %ymm0, %ymm0","vfmadd231pd %ymm1, %ymm2, %ymm3","vfmadd231pd (%rax), %ymm2, %ymm3","vaddpd %ymm1, %ymm2, %ymm3","vmulpd (%rax), %ymm2, %ymm3","incq %rax","decl %ecx","negq %rax","shlq $3, %rax","pushq %rax","popq %rax","jne .L1","cmovneq %rax, %rbx","addq $1, (%rax)","vmovapd %ymm0, (%rax,%rcx,8)","vdivpd %ymm1, %ymm2, %ymm3","andq %rax, %rbx","orq $1, %rbx","sarq %rcx","adcq %rax, %rbx","vcvtsi2sd %rax, %xmm0, %xmm1", "pxor %xmm0, %xmm0", "subq %rax, %rax", "xchgq %rax, %rbx", "movl %eax, %ebx", "vbroadcastsd (%rax), %ymm0", "vextractf128 $1, %ymm0, %xmm1", "vinsertf128 $1, %xmm0, %ymm1, %ymm2", "movsd (%rax), %xmm0", "addsd %xmm1, %xmm0", "mulsd (%rax), %xmm0", "cmpq $1, %rax", "nop"])
print("=====")
if __name__=="__main__": show("a64fx", ["add x0, x1, x2","add x0, x0, #8","adds x0, x1, #1","subs x0, x0, #1","cmp x0, x1","fadd d0, d1, d2","fmla v0.2d, v1.2d, v2.2d","fmadd d0, d1, d2, d3","ldr x0, [x1]","ldr x0, [x1, #8]!","ldr x0, [x1], #8","ldr q0, [x1, x2, lsl #4]","str x0, [x1]","str x0, [x1, #8]!","str x0, [x1], #8","ldp x0, x1, [x2]","ldp q0, q1, [x2], #32","stp x0, x1, [x2, #-16]!","mov x0, x1","mov x0, #1","fmov d0, x1","b.ne .L1","cbnz x0, .L1","csel x0, x1, x2, ne","madd x0, x1, x2, x3","mul x0, x1, x2","eor x0, x0, x0","ld1d {z0.d}, p0/z, [x1, x2, lsl #3]","st1d {z0.d}, p0, [x1, x2, lsl #3]","fmla z0.d, p0/m, z1.d, z2.d","whilelo p0.d, x1, x2","ld1 {v0.2d, v1.2d}, [x0], #32","incd x0","fmul v0.2d, v1.2d, v2.d[0]","dup v0.2d, x1","ins v0.d[1], x1","adrp x0, foo","neg x0, x1","prfm pldl1keep, [x0, #64]","tbz w0, #1, .L1"])
