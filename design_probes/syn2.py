"""Prototype: synthetic ISA/arch DBs + reference RAW model (x86 flavour)."""
import os, random, tempfile, itertools, collections
from osaca.semantics import MachineModel, ArchSemantics, KernelDG
from osaca.parser import ParserX86ATT

FAM = {}
for f, rs in {"A":["rax","eax","ax","al"],"B":["rbx","ebx","bx","bl"],"C":["rcx","ecx","cx","cl"],"D":["rdx","edx","dx","dl"],
              "SI":["rsi","esi","si","sil"],"R8":["r8","r8d","r8w","r8b"],"R9":["r9","r9d"]}.items():
    for r in rs: FAM[r]=f
for n in range(4):
    for p in "xyz": FAM["%smm%d"%(p,n)]="V%d"%n
GPR=[r for r in FAM if not r[1:3]=="mm"]
VEC={"xmm":["xmm%d"%n for n in range(4)],"ymm":["ymm%d"%n for n in range(4)]}
FLAGS=["CF","ZF","SF","OF"]

def gen_spec(rnd):
    nm = rnd.randint(2,6)
    forms=[]
    for i in range(nm):
        nops=rnd.randint(0,3)
        kinds=[rnd.choice(["gpr","gpr","gpr","xmm","ymm","imm"]) for _ in range(nops)]
        if kinds.count("mem")>1: kinds=[k if k!="mem" or j==kinds.index("mem") else "gpr" for j,k in enumerate(kinds)]
        lat=rnd.choice([0,1,1,2,3,5,0.5])
        isa=None
        if rnd.random()<0.7:
            roles=[rnd.choice([(True,False),(False,True),(True,True),(True,False),(False,True)]) for _ in kinds]
            roles=[(True,False) if k=="imm" else r for k,r in zip(kinds,roles)]
            hidden=[(fl, rnd.choice([(True,False),(False,True),(True,True)])) for fl in rnd.sample(FLAGS, rnd.randint(0,2))]
            brk = (nops>=2 and all(k==kinds[0] and k in("gpr","xmm","ymm") for k in kinds) and rnd.random()<0.5)
            if brk: hidden=[(fl,(False,True)) for fl,_ in hidden]
            isa=dict(roles=roles,hidden=hidden,brk=brk)
        forms.append(dict(name="ins%d"%i,kinds=kinds,lat=lat,isa=isa))
    return dict(forms=forms, stlf=rnd.choice([0.0,2.0,5.0]))

def opyaml(kind, role=None, ind="  "):
    s=""
    if kind in("gpr","xmm","ymm"): s+=ind+"- class: register\n"+ind+"  name: %s\n"%kind
    elif kind=="imm": s+=ind+"- class: immediate\n"+ind+"  imd: int\n"
    elif kind=="mem": s+=ind+"- class: memory\n"+ind+"  base: '*'\n"+ind+"  offset: '*'\n"+ind+"  index: '*'\n"+ind+"  scale: '*'\n"
    if role is not None: s+=ind+"  source: %s\n"%str(role[0]).lower()+ind+"  destination: %s\n"%str(role[1]).lower()
    return s

def write_models(spec,d):
    a="osaca_version: 0.3.4\nmicro_architecture: Synth\narch_code: SYN\nisa: x86\nload_latency: {gpr: 4.0, mm: 4.0, xmm: 4.0, ymm: 4.0, zmm: 4.0}\nload_throughput: []\nload_throughput_default: [[1, '0']]\nstore_throughput: []\nstore_throughput_default: [[1, '1']]\nstore_to_load_forward_latency: %s\nhidden_loads: false\nports: ['0', '1']\ninstruction_forms:\n"%spec["stlf"]
    i="osaca_version: 0.3.4\nisa: x86\ninstruction_forms:\n"
    for f in spec["forms"]:
        a+="- name: %s\n"%f["name"]
        a+= "  operands: []\n" if not f["kinds"] else "  operands:\n"+"".join(opyaml(k) for k in f["kinds"])
        a+="  throughput: 1.0\n  latency: %s\n  port_pressure: [[1, '01']]\n"%f["lat"]
        if f["isa"]:
            i+="- name: %s\n"%f["name"]
            i+= "  operands: []\n" if not f["kinds"] else "  operands:\n"+"".join(opyaml(k,r) for k,r in zip(f["kinds"],f["isa"]["roles"]))
            if f["isa"]["hidden"]:
                i+="  hidden_operands:\n"
                for fl,(s,dd) in f["isa"]["hidden"]:
                    i+="  - class: flag\n    name: %s\n    source: %s\n    destination: %s\n"%(fl,str(s).lower(),str(dd).lower())
            if f["isa"]["brk"]: i+="  breaks_dependency_on_equal_operands: true\n"
    if not any(f["isa"] for f in spec["forms"]): i+="- name: dummy0\n  operands: []\n"
    pa=os.path.join(d,"syn.yml"); pi=os.path.join(d,"isa.yml")
    open(pa,"w").write(a); open(pi,"w").write(i)
    return pa,pi

def gen_kernel(rnd, spec, n):
    k=[]
    for _ in range(n):
        f=rnd.choice(spec["forms"])
        ops=[]
        same=None
        for kd in f["kinds"]:
            if kd=="gpr":
                r=rnd.choice(["rax","eax","al","rbx","ebx","rcx","cx","rdx","r8","r8d"]); ops.append(("reg",r))
            elif kd in("xmm","ymm"): ops.append(("reg",rnd.choice(VEC[kd])))
            elif kd=="imm": ops.append(("imm",rnd.choice([1,8,-4,0x10])))
            else:
                b=rnd.choice([None]+["rax","rbx","rcx","rsi"]); ix=rnd.choice([None,None,"rdx","r8","rcx"])
                off=rnd.choice([None,0,8,16,-8]); sc=rnd.choice([1,2,4,8]) if ix else 1
                if b is None and ix is None: b="rax"
                ops.append(("mem",off,b,ix,sc))
        if f["isa"] and f["isa"]["brk"] and rnd.random()<0.6: ops=[ops[0]]*len(ops)
        k.append((f,ops))
    return k

def render(ops):
    out=[]
    for o in ops:
        if o[0]=="reg": out.append("%"+o[1])
        elif o[0]=="imm": out.append("$%d"%o[1])
        else:
            _,off,b,ix,sc=o
            s="" if off is None else str(off)
            s+="("+("%"+b if b else "")
            if ix: s+=",%"+ix+(",%d"%sc if sc!=1 or True else "")
            s+=")"; out.append(s)
    return ", ".join(out)

def ref_rw(f, ops, flagdeps):
    """return (R regs fams, W reg fams, Rflags, Wflags, store mem, load mems)"""
    R=set();W=set();RF=set();WF=set();st=[];ld=[]
    kinds=f["kinds"]
    if f["isa"]:
        isa=f["isa"]
        if isa["brk"] and len(ops)>=2 and all(o==ops[0] for o in ops):
            for o in ops:
                if o[0]=="reg": W.add(FAM[o[1]])
            for fl,_ in isa["hidden"]: WF.add(fl)
            return R,W,RF,WF,st,ld
        roles=isa["roles"]; hidden=isa["hidden"]
    else:
        n=len(ops)
        if n==1: roles=[(True,False)]
        else: roles=[(True,False)]*(n-1)+[(False,True)]
        hidden=[]
    for o,(s,d) in zip(ops,roles):
        if o[0]=="reg":
            if s: R.add(FAM[o[1]])
            if d: W.add(FAM[o[1]])
        elif o[0]=="mem":
            if s or d:
                for r in (o[2],o[3]):
                    if r: R.add(FAM[r])
            if s: ld.append(o)
            if d: st.append(o)
    for fl,(s,d) in hidden:
        if s: RF.add(fl)
        if d: WF.add(fl)
    return R,W,RF,WF,st,ld

def ref_edges(kernel, flagdeps, stlf):
    info=[ref_rw(f,ops,flagdeps) for f,ops in kernel]
    edges={}
    n=len(kernel)
    for a in range(n):
        R,W,RF,WF,st,ld=info[a]
        lat=kernel[a][0]["lat"]
        for r in W:
            for b in range(a+1,n):
                if r in info[b][0]: edges.setdefault((a,b),set()).add(lat)
                if r in info[b][1]: break
        if flagdeps:
            for fl in WF:
                for b in range(a+1,n):
                    if fl in info[b][2]: edges.setdefault((a,b),set()).add(lat)
                    if fl in info[b][3]: break
        for m in st:
            # track unknown changes: any write (by a itself or later) to base/index family makes unknown
            unknown=set(W)
            for b in range(a+1,n):
                unknown |= info[b][1]
                for l in info[b][5]:
                    if (l[2],l[3])==(m[2],m[3]) and (l[4]==m[4] or not l[3]) and (l[1] or 0)==(m[1] or 0):
                        if not any(r and FAM[r] in unknown for r in (l[2],l[3])):
                            edges.setdefault((a,b),set()).add(lat+stlf)
                if any(s2==m for s2 in info[b][4]): break
    return edges

def run_osaca(pa,pi,text,flagdeps):
    MachineModel._runtime_cache.clear()
    mm=MachineModel(path_to_yaml=pa); sem=ArchSemantics(mm,path_to_yaml=pi); p=ParserX86ATT()
    k=p.parse_file(text); sem.add_semantics(k)
    dg=KernelDG(k,p,mm,sem,timeout=-1,flag_dependencies=flagdeps)
    return k,dg
