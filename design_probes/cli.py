import io, re, sys, subprocess, os
from osaca import osaca as O
def run_inproc(argv):
    parser=O.create_parser(); args=parser.parse_args(argv); O.check_arguments(args,parser)
    out=io.StringIO(); O.run(args,output_file=out); args.file.close(); return out.getvalue()
def run_sub(argv):
    r=subprocess.run(["/venv/bin/python","-m","osaca"]+argv,capture_output=True,text=True,env=dict(os.environ,PYTHONHASHSEED="0"))
    return r.returncode,r.stdout,r.stderr
def norm(rep):
    return "\n".join(l for l in rep.splitlines() if not l.startswith("Timestamp:") and not l.startswith("Analyzed file:"))
