import collections, sys
from osaca.semantics import MachineModel
from osaca.parser.register import RegisterOperand
from osaca.parser.memory import MemoryOperand
from osaca.parser.immediate import ImmediateOperand
from osaca.parser.identifier import IdentifierOperand
from osaca.parser.condition import ConditionOperand
from osaca.parser.prefetch import PrefetchOperand
kinds=collections.Counter()
def synth(op):
    if isinstance(op, RegisterOperand):
        p=op.prefix
        if p is None: return None
        if p=="*": p="x"
        sh=op.shape
        if sh=="*": sh="d"
        return RegisterOperand(prefix=p,name="1",shape=sh,lanes=("2" if sh and p=="v" else None))
    if isinstance(op, MemoryOperand):
        base = None if op.base is None else RegisterOperand(prefix=("x" if op.base=="*" else op.base), name="2")
        off = None
        if op.offset in ("imd","*"): off=ImmediateOperand(value=8)
        elif op.offset is not None: return None
        idx=None
        if op.index is not None: idx=RegisterOperand(prefix=("x" if op.index in ("*","gpr") else op.index), name="3")
        sc = 1 if op.scale==1 else 8
        pre = op.pre_indexed if op.pre_indexed!="*" else False
        post = op.post_indexed if op.post_indexed!="*" else False
        if post is True: post={"value":16}
        return MemoryOperand(offset=off,base=base,index=idx,scale=sc,pre_indexed=pre,post_indexed=post)
    if isinstance(op, ImmediateOperand):
        t=op.imd_type
        if t in ("int","*"): return ImmediateOperand(imd_type="int",value=1)
        if t in ("float","double"): return ImmediateOperand(imd_type=t,value="1.0")
        return None
    if isinstance(op, IdentifierOperand): return IdentifierOperand(name=".L1")
    if isinstance(op, ConditionOperand): return ConditionOperand(ccode=("EQ" if op.ccode=="*" else op.ccode))
    if isinstance(op, PrefetchOperand): return PrefetchOperand(type_id=["PLD"],target=["L1"],policy=["KEEP"])
    return None
for a in "tx2 n1 a64fx tsv110 a72 m1 v2".split():
    mm=MachineModel(arch=a)
    stat=collections.Counter(); ex=collections.defaultdict(list)
    for name,forms in mm["instruction_forms_dict"].items():
        for f in forms:
            for o in f.operands: kinds[type(o).__name__]+=1
            ops=[synth(o) for o in f.operands]
            if any(o is None for o in ops): stat["unsynth"]+=1; ex["unsynth"].append((name,[str(o)[:90] for o,s in zip(f.operands,ops) if s is None])); continue
            got=mm.get_instruction(name, ops)
            if got is None: stat["nomatch"]+=1; ex["nomatch"].append((name,[str(o)[:200] for o in f.operands]))
            elif got is f: stat["self"]+=1
            else: stat["shadow"]+=1
    print(a, dict(stat)); 
    for k,v in ex.items(): print("   ",k,v[:4])
print(kinds)
