import os, tempfile, io, time
from osaca.semantics import MachineModel, ArchSemantics, KernelDG, INSTR_FLAGS
from osaca.parser import ParserX86ATT, ParserAArch64

HDR_X86 = """osaca_version: 0.3.4
micro_architecture: Synth
arch_code: SYN
isa: x86
load_latency: {gpr: 4.0, mm: 4.0, xmm: 4.0, ymm: 4.0, zmm: 4.0}
load_throughput: []
load_throughput_default: []
store_throughput: []
store_throughput_default: []
store_to_load_forward_latency: 0.0
hidden_loads: false
ports: %s
instruction_forms:
"""
def mk_model(ports, forms, d):
    # forms: list of (name, nops, tp, lat, port_pressure_repr)
    s = HDR_X86 % repr(ports)
    for name, nops, tp, lat, pp in forms:
        s += "- name: %s\n  operands:\n" % name
        for _ in range(nops):
            s += "  - class: register\n    name: gpr\n"
        if nops == 0:
            s = s.replace("  operands:\n", "  operands: []\n") if False else s
        s += "  throughput: %s\n  latency: %s\n  port_pressure: %s\n" % (tp, lat, pp)
    p = os.path.join(d, "syn.yml")
    open(p, "w").write(s)
    return MachineModel(path_to_yaml=p)
