from osaca.parser import ParserX86ATT, ParserAArch64
from osaca.parser.register import RegisterOperand as R
px=ParserX86ATT(); pa=ParserAArch64()
fam = {"A":["rax","eax","ax","al","ah"],"B":["rbx","ebx","bx","bl","bh"],"C":["rcx","ecx","cx","cl","ch"],"D":["rdx","edx","dx","dl","dh"],
 "SP":["rsp","esp","sp","spl"],"BP":["rbp","ebp","bp","bpl"],"SI":["rsi","esi","si","sil"],"DI":["rdi","edi","di","dil"]}
for n in range(8,16): fam["R%d"%n]=["r%d"%n,"r%dd"%n,"r%dw"%n,"r%db"%n]
for n in range(32): fam["V%d"%n]=["xmm%d"%n,"ymm%d"%n,"zmm%d"%n]
for n in range(8): fam["MM%d"%n]=["mm%d"%n]; fam["K%d"%n]=["k%d"%n]
names=[(f,r) for f,rs in fam.items() for r in rs]
bad=[]
for f1,a in names:
  for f2,b in names:
    for A,B in ((a,b),(a.upper(),b),(a,b.upper())):
      try: got=bool(px.is_reg_dependend_of(R(name=A),R(name=B)))
      except Exception as e: got=repr(e)
      if got != (f1==f2): bad.append((A,B,got))
print(len(names), len(bad)); print(bad[:40])
# aarch64
bada=[]
regs=[]
for pfx in "wxbhsdqvzp":
  for n in range(32): regs.append((pfx,str(n)))
def famA(p,n):
  if n in("sp","zr"): return n
  return ("g" if p in "wx" else "v" if p in "bhsdqvz" else "p")+n
regs += [("w","sp"),("x","sp"),("w","zr"),("x","zr")]
for p1,n1 in regs:
  for p2,n2 in regs:
    for P1 in (p1,p1.upper()):
      try: got=bool(pa.is_reg_dependend_of(R(prefix=P1,name=n1),R(prefix=p2,name=n2)))
      except Exception as e: got=repr(e)
      exp = famA(p1,n1)==famA(p2,n2)
      if got!=exp: bada.append((P1+n1,p2+n2,got))
print(len(regs), len(bada)); print(bada[:20])
