import sys, random, tempfile, shutil, collections
from syn2 import *
seed=int(sys.argv[1]); N=int(sys.argv[2])
rnd=random.Random(seed)
d=tempfile.mkdtemp()
stats=collections.Counter()
def longest(n, edges, lat):
    # edges {(a,b):w} a<b ; best[b]=max path weight ending at b (excluding b's latency)
    best=[0.0]*n
    for b in range(n):
        for (a,bb),w in edges.items():
            if bb==b: best[b]=max(best[b],best[a]+w)
    return max(best[i]+lat[i] for i in range(n))
def cycles(kern, fd, stlf):
    n=len(kern)
    e2=ref_edges(kern+kern, fd, stlf)
    adj=collections.defaultdict(list)
    for (a,b),ws in e2.items(): adj[a].append((b,ws))
    res={}
    def dfs(start,node,path,lat):
        for b,ws in adj[node]:
            if b==start+n:
                nodes=tuple(sorted(x% n for x in path)); res.setdefault(nodes,set()).add(lat+min(ws))
            elif b not in path and b!=start:
                dfs(start,b,path+[b],lat+min(ws))
    for s in range(n): dfs(s,s,[s],0.0)
    return res
for it in range(N):
    spec=gen_spec(rnd); pa,pi=write_models(spec,d)
    for f in os.listdir(d):
        if f.endswith(".pickle"): os.remove(os.path.join(d,f))
    for kk in range(4):
        kern=gen_kernel(rnd,spec,rnd.randint(3,9)); fd=rnd.random()<0.5
        text="".join("%s %s\n"%(f["name"],render(ops)) for f,ops in kern)
        k,dg=run_osaca(pa,pi,text,fd)
        got={(int(a)-1,int(b)-1):dt["latency"] for a,b,dt in dg.dg.edges(data=True) if a==int(a)}
        exp=ref_edges(kern,fd,spec["stlf"])
        if set(got)!=set(exp):
            stats["edge_mismatch"]+=1
            print("EDGE",text,"missing",set(exp)-set(got),"extra",set(got)-set(exp),"fd",fd)
            for f in spec["forms"]: print("   ",f)
            continue
        stats["cases"]+=1
        cp=dg.get_critical_path(); cpv=sum(x.latency_cp for x in cp)
        ref=longest(len(kern),{e:min(w) for e,w in exp.items()},[f["lat"] for f,_ in kern])
        if abs(cpv-ref)>1e-9:
            stats["cp_mismatch"]+=1
            stats["cp_under" if cpv<ref else "cp_over"]+=1
            if stats["cp_mismatch"]<=2: print("CP",cpv,ref,[x.line_number for x in cp]); print(text); print(got)
        # LCD
        lcd=dg.get_loopcarried_dependencies()
        gotl={tuple(sorted(n.line_number-1 for n,_ in v["dependencies"])):v["latency"] for v in lcd.values()}
        refl=cycles(kern,fd,spec["stlf"])
        if set(gotl)!=set(refl): 
            stats["lcd_set_mismatch"]+=1
            if stats["lcd_set_mismatch"]<=3: print("LCDSET",gotl,refl); print(text)
        else:
            stats["lcds"]+=len(gotl)
            for c in gotl:
                if gotl[c] not in refl[c]: stats["lcd_lat_mismatch"]+=1; print("LCDLAT",c,gotl[c],refl[c]) if stats["lcd_lat_mismatch"]<3 else None
        # rotation
        r=rnd.randrange(1,len(kern)); rk=kern[r:]+kern[:r]
        text2="".join("%s %s\n"%(f["name"],render(ops)) for f,ops in rk)
        k2,dg2=run_osaca(pa,pi,text2,fd)
        lcd2=dg2.get_loopcarried_dependencies()
        n=len(kern)
        gotl2={tuple(sorted((nn.line_number-1+r)%n for nn,_ in v["dependencies"])):v["latency"] for v in lcd2.values()}
        if gotl2!=gotl:
            stats["rot_mismatch"]+=1
            if stats["rot_mismatch"]<=3: print("ROT",r,gotl,gotl2); print(text)
shutil.rmtree(d)
print(dict(stats))
