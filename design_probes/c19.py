import time, sys, os
from osaca.parser import ParserX86ATT
from osaca.semantics import MachineModel, ArchSemantics, KernelDG
import osaca.semantics.kernel_dg as kd
mm=MachineModel(arch="zen2"); sem=ArchSemantics(mm); p=ParserX86ATT()
k=p.parse_file("vaddpd %ymm1, %ymm2, %ymm2\naddq $8, %rax\nvmulpd %ymm2, %ymm3, %ymm3\n"); sem.add_semantics(k)
class D(KernelDG):
    delay=0
    def _extend_path(self, dst, kernel, dg, offset):
        time.sleep(D.delay); super()._extend_path(dst,kernel,dg,offset)
KernelDG.INSTRUCTION_THRESHOLD=1; kd.cpu_count=lambda:2
for delay,to in [(0,1),(0.5,1),(0.85,1),(0.95,1),(1.5,1),(0.0,0),(0.3,-1)]:
    D.delay=delay; t=time.time(); g=D(k,p,mm,sem,timeout=to); dt=time.time()-t
    print("delay",delay,"timeout",to,"timed_out",g.timed_out,"n_lcd",len(g.get_loopcarried_dependencies()),"wall",round(dt,2))
