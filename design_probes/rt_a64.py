import random, sys, collections, time
from osaca.parser import ParserAArch64
from osaca.parser.register import RegisterOperand
from osaca.parser.memory import MemoryOperand
from osaca.parser.immediate import ImmediateOperand
from osaca.parser.identifier import IdentifierOperand
from osaca.parser.condition import ConditionOperand
p=ParserAArch64()
rnd=random.Random(int(sys.argv[1])); N=int(sys.argv[2])
MNE="add sub ldr str ldp stp fmla fadd mov fmov b.ne b.lt csel ld1 st1 ld1d cmp madd ret movk fmul prfm".split()
CC="eq ne cs hs cc lo mi pl vs vc hi ls ge lt gt le al".split()
def ws(): return rnd.choice([""," ","  ","\t"])
def up(s): return s.upper() if rnd.random()<0.15 else s
def num(v, allow_nohash=True):
    h = "#" if (not allow_nohash or rnd.random()<0.7) else ""
    if rnd.random()<0.3: return h+("-" if v<0 else "")+"0x%x"%abs(v)
    return h+str(v)
def gen_reg():
    k=rnd.choice(["scalar","scalar","vec","sve","pred","sp","zr"])
    n=rnd.randrange(32)
    if k=="scalar":
        pf=rnd.choice("wxbhsdq"); return ("reg",pf,str(n),None,None,None,None), up(pf)+str(n)
    if k=="vec":
        sh=rnd.choice("bhsd"); lanes=rnd.choice([None,"2","4","8","16"]); idx=rnd.choice([None,None,0,1])
        if idx is not None: lanes=None
        t="v%d.%s%s"%(n,lanes or "",sh)+("[%d]"%idx if idx is not None else "")
        return ("reg","v",str(n),sh,lanes,idx,None), up(t) if idx is None else t
    if k=="sve":
        sh=rnd.choice("bhsd"); return ("reg","z",str(n),sh,None,None,None), "z%d.%s"%(n,sh)
    if k=="pred":
        n=rnd.randrange(16); pr=rnd.choice([None,"z","m"]); return ("reg","p",str(n),None,None,None,pr), "p%d"%n+("/"+pr if pr else "")
    if k=="sp": return ("reg","x","sp",None,None,None,None), rnd.choice(["sp","SP"])
    pf=rnd.choice("wx"); return ("reg",pf,"zr",None,None,None,None), pf+"zr"
def gen_mem():
    b=rnd.choice(["x%d"%rnd.randrange(31),"sp"])
    kind=rnd.choice(["b","bo","bo","bi","bis","pre","post"])
    bn=("x", b[1:] if b!="sp" else "sp")
    if kind=="b": return ("mem",None,bn,None,1,False,False), "["+ws()+b+ws()+"]"
    if kind in("bo","pre"):
        v=rnd.choice([0,8,-8,16,256,-256,4095,rnd.randrange(-512,512)])
        t="["+ws()+b+ws()+","+ws()+num(v)+ws()+"]"+("!" if kind=="pre" else "")
        return ("mem",v,bn,None,1,kind=="pre",False), t
    if kind=="post":
        v=rnd.choice([8,16,-16,32,64,rnd.randrange(-256,256)])
        return ("mem",None,bn,None,1,False,v), "["+ws()+b+ws()+"]"+ws()+","+ws()+num(v)
    ipf=rnd.choice("xw"); i=rnd.randrange(31)
    if kind=="bi": return ("mem",None,bn,(ipf,str(i)),1,False,False), "["+b+","+ws()+ipf+str(i)+"]"
    sh=rnd.choice([0,1,2,3,4]); op=rnd.choice(["lsl","sxtw","uxtw"]) if ipf=="w" else "lsl"
    return ("mem",None,bn,(ipf,str(i)),2**sh,False,False), "["+b+", "+ipf+str(i)+","+ws()+up(op)+" "+rnd.choice(["#",""])+str(sh)+"]"
def gen_imm():
    k=rnd.choice(["int","int","float","double"])
    if k=="int":
        v=rnd.choice([0,1,-1,255,4095,65535,rnd.randrange(-2**31,2**31)]); return ("imm","int",v), num(v)
    m=rnd.choice(["1.0","0.5","2.50000000","-1.25","31.0"])
    if rnd.random()<0.5:
        e=rnd.choice(["e+1","e-2","E+0"]); f = rnd.random()<0.5
        return ("immf","float" if f else "double",m,e[1],e[2:]), "#"+m+e+("f" if f else "")
    return ("immf","double",m,None,None), rnd.choice(["#",""])+m
def canon(o):
    if isinstance(o,RegisterOperand): return ("reg",o.prefix,o.name.lower() if o.name in("SP","ZR") else o.name,o.shape,o.lanes,int(o.index) if o.index is not None else None,o.predication)
    if isinstance(o,ImmediateOperand):
        if o.imd_type=="int": return ("imm","int",o.value)
        v=o.value
        if isinstance(v,dict): return ("immf",o.imd_type,v["mantissa"],v.get("e_sign"),v.get("exponent"))
        return ("immf",o.imd_type,v,None,None)
    if isinstance(o,IdentifierOperand): return ("id",o.name)
    if isinstance(o,ConditionOperand): return ("cc",o.ccode)
    if isinstance(o,MemoryOperand):
        off=o.offset.value if isinstance(o.offset,ImmediateOperand) else o.offset
        post=o.post_indexed["value"] if isinstance(o.post_indexed,dict) else o.post_indexed
        return ("mem",off,(o.base.prefix,o.base.name.lower()),(o.index.prefix,o.index.name) if o.index else None,o.scale,o.pre_indexed,post)
    return ("?",str(o))
bad=collections.Counter(); shown=0; t0=time.time()
for it in range(N):
    m=rnd.choice(MNE); n=rnd.randint(0,4)
    ops=[]
    for j in range(n):
        k=rnd.choice(["reg","reg","reg","imm","cc","lab"]) if j<n-1 else rnd.choice(["reg","imm","mem","mem","lab","cc"])
        if k=="cc" and j==0: k="reg"
        if k=="reg": ops.append(gen_reg())
        elif k=="imm": ops.append(gen_imm())
        elif k=="mem": ops.append(gen_mem())
        elif k=="cc": c=rnd.choice(CC); ops.append((("cc",c.upper()), up(c)))
        else: l=rnd.choice([".L1",".LBB0_3","foo","_bar.baz","loop2"]); ops.append((("id",l),l))
    line=ws()+up(m)+(" "+ws() if n else "")+(ws()+","+ws()).join(t for _,t in ops)+ws()
    if rnd.random()<0.3: line+=rnd.choice([" // comment x"," //c","// =1"])
    exp=[a for a,_ in ops]
    try:
        f=p.parse_line(line,7); got=[canon(o) for o in f.operands]
        ok = f.mnemonic.lower()==m and got==exp and f.line==line and f.label is None and f.directive is None
    except Exception as e:
        ok=False; got=repr(e)[:100]; f=None
    if not ok and not any(a[0]=="cc" for a in exp):
        key=tuple(a[0] for a in exp); bad[key]+=1
        if shown<30: shown+=1; print(repr(line),"\n   exp",m,exp,"\n   got",(f.mnemonic if f else None),got,(f.label,f.directive) if f else "")
print(N, sum(bad.values()), round(time.time()-t0,1), bad.most_common(15))
