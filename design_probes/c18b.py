import random, glob, sys
from cli import *
rnd=random.Random(1)
items=[]
for f in sorted(glob.glob("/repo/examples/*/*.s"))[:20]+["/repo/tests/test_files/kernel_x86.s","/repo/tests/test_files/kernel_aarch64.s","/repo/tests/test_files/kernel_x86_memdep.s","/repo/tests/test_files/kernel_aarch64_memdep.s"]:
    isa="aarch64" if (".tx2." in f or "aarch64" in f) else "x86"
    for arch in (["zen2","icx","spr"] if isa=="x86" else ["tx2","a64fx","v2"]):
        for opt in ([],["--fixed"],["-f"],["--ignore-unknown"]):
            items.append(["--arch",arch]+opt+[f])
seq=[rnd.choice(items) for _ in range(40)]
seq+=seq[:5]
exp={}
bad=0
for a in seq:
    k=tuple(a)
    if k not in exp:
        rc,out,err=run_sub(a); exp[k]=(rc,norm(out))
    try: got=(0,norm(run_inproc(a)))
    except SystemExit as e: got=(e.code,"")
    except Exception as e: got=(1,"EXC "+repr(e)[:100])
    if got[1]!=exp[k][1]:
        bad+=1; print("DIFF",a, exp[k][0], got[0]); 
        if bad<3:
            import difflib; print("\n".join(list(difflib.unified_diff(exp[k][1].splitlines(),got[1].splitlines(),lineterm=""))[:20]))
print(len(seq),bad)
