#!/venv/bin/python
"""Prepare a round of independently seeded changes: tools/seed/prepare.py <round> <ID>...

Creates /tmp/seedtools (property texts, baseline.sh, prompts - nothing else from /verif) and one scratch worktree
/tmp/seed<round>-<ID> of /repo's HEAD plus /tmp/seed<round>-<ID>-out per property.  The prompt of round n>1 lists
the changes already kept in seeded/<ID>-s<k> as "already taken" so that the new one has to be different.
"""
import glob
import json
import os
import shutil
import subprocess
import sys

HERE = os.path.dirname(os.path.abspath(__file__))
VERIF = os.path.dirname(os.path.dirname(HERE))
T = "/tmp/seedtools"


def main():
    rnd = int(sys.argv[1])
    ids = sys.argv[2:]
    os.makedirs(T, exist_ok=True)
    shutil.copy(os.path.join(HERE, "baseline.sh"), T + "/baseline.sh")
    os.chmod(T + "/baseline.sh", 0o755)
    props = {json.loads(l)["id"]: json.loads(l) for l in open(VERIF + "/properties.jsonl")}
    for pid, p in props.items():
        open("%s/%s.txt" % (T, pid), "w").write(
            "Property %s: %s\n\nStatement: %s\n\nQuantified over: %s\n\nCode anchors (files): %s\n"
            "Mechanisms meant to make it hold:\n%s\n" % (
                pid, p["title"], p["statement"], p["quantifier"]["text"], ", ".join(p["anchors"]["files"]),
                "\n".join("  - %s (%s)" % (m["name"], m["where"]) for m in p["anchors"]["mechanism"])))
    tmpl = open(HERE + "/prompt.txt").read()
    for pid in ids:
        wt = "/tmp/seed%d-%s" % (rnd, pid)
        t = tmpl.replace("@ID@", pid).replace("/tmp/seed-%s-out" % pid, wt + "-out").replace("/tmp/seed-%s" % pid, wt)
        taken = []
        for d in sorted(glob.glob("%s/seeded/%s-s*" % (VERIF, pid))):
            m = json.load(open(d + "/meta.json"))
            if m.get("change"):
                taken.append("  ALREADY TAKEN: %s (trigger: %s)" % (m["change"], m.get("needs", "")))
        if taken:
            t += ("\n\nDIVERSITY REQUIREMENT: other engineers already produced the following breaking changes for this "
                  "property; yours must be clearly different from each of them - a different mechanism, code site and "
                  "trigger condition, ideally touching a different clause of the property statement or a different "
                  "file among the code anchors:\n%s\n" % "\n".join(taken))
        open("%s/prompt%d-%s.txt" % (T, rnd, pid), "w").write(t)
        subprocess.run(["git", "-C", "/repo", "worktree", "remove", "--force", wt], capture_output=True)
        shutil.rmtree(wt, ignore_errors=True)
        subprocess.run(["git", "-C", "/repo", "worktree", "add", "--detach", "-q", wt, "HEAD"], check=True)
        os.makedirs(wt + "-out", exist_ok=True)
        print("prepared", wt)


if __name__ == "__main__":
    main()
