#!/bin/sh
# run the repository's baseline suite and compare with BASELINE.json stable_pass
REPO=${1:-/repo}
OUT=$(mktemp /tmp/baseline.XXXXXX.xml)
cd "$REPO" && /venv/bin/python -m pytest -q -p no:cacheprovider --timeout=900 --continue-on-collection-errors -x --co -q >/dev/null 2>&1
cd "$REPO" && /venv/bin/python -m pytest -ra -q -p no:cacheprovider --timeout=900 --continue-on-collection-errors -n 8 --junitxml="$OUT" >/dev/null 2>&1
/venv/bin/python - "$OUT" <<'PY'
import json, sys, xml.etree.ElementTree as ET
base = set(json.load(open('/root/.vp/BASELINE.json'))['stable_pass'])
t = ET.parse(sys.argv[1])
passed = set()
for tc in t.iter('testcase'):
    if not any(c.tag in ('failure', 'error', 'skipped') for c in tc):
        passed.add(tc.get('classname') + '::' + tc.get('name'))
missing = sorted(base - passed)
print('baseline: %d/%d stable tests pass; extra passing: %d' % (len(base & passed), len(base), len(passed - base)))
for m in missing: print('  MISSING', m)
sys.exit(1 if missing else 0)
PY
rc=$?
rm -f "$OUT" "$REPO"/tests/test_files/*.copy.s
exit $rc
