#!/venv/bin/python
"""pin.py <PROP> : move replays/found/<PROP>-*.json to replays/<PROP>/<bucket-name>.json"""
import glob, json, os, re, sys
prop = sys.argv[1]
os.makedirs('/verif/replays/%s' % prop, exist_ok=True)
for f in glob.glob('/verif/replays/found/%s-*.json' % prop):
    r = json.load(open(f))
    name = re.sub(r'[^a-zA-Z0-9]+', '_', r['bucket']).strip('_')[:80]
    dst = '/verif/replays/%s/%s.json' % (prop, name)
    i = 1
    while os.path.exists(dst):
        i += 1
        dst = '/verif/replays/%s/%s_%d.json' % (prop, name, i)
    json.dump(r, open(dst, 'w'), indent=1, sort_keys=True)
    os.remove(f)
    print('pinned', dst)
