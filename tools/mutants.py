"""Registry of deliberate breaks used to validate sensitivity: name -> (props, file, old, new)."""
M = {}


def m(name, props, file, old, new):
    M[name] = (props, file, old, new)


# ---- C01 / C02
m("c01-uniform-div", ["C01"], "osaca/semantics/hw_model.py",
  "average_pressure[port_list.index(p)] += cycles / len(ports)",
  "average_pressure[port_list.index(p)] += cycles / (len(ports) + 1)")
m("c01-sum-nofilter", ["C01"], "osaca/semantics/arch_semantics.py",
  "port_pressures = [instr.port_pressure for instr in kernel if instr.throughput != 0.0]",
  "port_pressures = [instr.port_pressure for instr in kernel if instr.mnemonic is not None]")
m("c01-cap-removed", ["C01", "C02"], "osaca/semantics/arch_semantics.py",
  "                        if round(min(differences), 2) <= 0:",
  "                        if False and round(min(differences), 2) <= 0:")
m("c02-wrong-direction", ["C02", "C01"], "osaca/semantics/arch_semantics.py",
  """                        instr_ports[max_port_idx] -= INC
                        instr_ports[min_port_idx] += INC
                        differences[max_port_idx] -= INC
                        differences[min_port_idx] += INC""",
  """                        instr_ports[max_port_idx] += INC
                        instr_ports[min_port_idx] -= INC
                        differences[max_port_idx] += INC
                        differences[min_port_idx] -= INC""")
m("c02-balancer-off", ["C02"], "osaca/semantics/arch_semantics.py",
  "                if len(set(port_sums)) > 1:",
  "                if False and len(set(port_sums)) > 1:")
m("c02-step-0.1", ["C02"], "osaca/semantics/arch_semantics.py",
  "        INC = 0.01\n", "        INC = 0.1\n")
m("c02-first-uop-only", ["C02"], "osaca/semantics/arch_semantics.py",
  "            for uop in instruction_form.port_uops:\n                cycles = uop[0]",
  "            for uop in instruction_form.port_uops[:1]:\n                cycles = uop[0]")

# ---- C03 / C04 / C05 / C14
m("c03-no-kill", ["C03"], "osaca/semantics/kernel_dg.py",
  """                    # write to register -> abort
                    if self.is_written(dst, instr_form):
                        break
                if isinstance(dst, FlagOperand) and flag_dependencies:""",
  """                    # write to register -> abort
                    if self.is_written(dst, instr_form) and False:
                        break
                if isinstance(dst, FlagOperand) and flag_dependencies:""")
m("c03-index-not-read", ["C03"], "osaca/semantics/kernel_dg.py",
  """                if src.index is not None and isinstance(src.index, RegisterOperand):
                    is_read = self.parser.is_reg_dependend_of(register, src.index) or is_read
        # Check also if read in destination memory address""",
  """                if src.index is not None and isinstance(src.index, RegisterOperand):
                    is_read = is_read
        # Check also if read in destination memory address""")
m("c03-hidden-swapped", ["C03"], "osaca/semantics/isa_semantics.py",
  """                    dict_key = (
                        "src_dst"
                        if op.source and op.destination
                        else "source" if op.source else "destination"
                    )
                else:""",
  """                    dict_key = (
                        "src_dst"
                        if op.source and op.destination
                        else "destination" if op.source else "source"
                    )
                else:""")
m("c03-default-dst-x86-first", ["C03"], "osaca/semantics/isa_semantics.py",
  """            # return last operand
            return instruction_form.operands[-1:]""",
  """            # return last operand
            return instruction_form.operands[:1]""")
m("c03-zero-idiom-reads", ["C03"], "osaca/semantics/isa_semantics.py",
  """            op_dict["destination"] += operands
            if isa_data.hidden_operands != []:""",
  """            op_dict["src_dst"] += operands
            if isa_data.hidden_operands != []:""")
m("c03-weight-full-latency", ["C03", "C04"], "osaca/semantics/kernel_dg.py",
  """                    if "mem_dep" in dep_flags or instruction_form.latency_wo_load is None
                    else instruction_form.latency_wo_load""",
  """                    if "mem_dep" in dep_flags or instruction_form.latency_wo_load is None
                    else instruction_form.latency""")
m("c03-writeback-weight", ["C03"], "osaca/semantics/kernel_dg.py",
  """                    edge_weight = self.model.get("p_index_latency", 1)""",
  """                    edge_weight = edge_weight""")
m("c03-bp-family-dropped", ["C03", "C12"], "osaca/parser/parser_x86att.py",
  """            "BP": ["RBP", "EBP", "BP", "BPL"],\n""", "")
m("c03-vector-alias", ["C03", "C12"], "osaca/parser/parser_x86att.py",
  "                if reg_a_name[1:] == reg_b_name[1:]:", "                if reg_a_name[2:] == reg_b_name[2:] and reg_a_name[0] == reg_b_name[0]:")
m("c04-drop-terminal", ["C04"], "osaca/semantics/kernel_dg.py",
  "            total = acc_end + self._get_node_by_lineno(int(node)).latency",
  "            total = acc_end")
m("c04-min-pred", ["C04"], "osaca/semantics/kernel_dg.py",
  "                if candidate > acc:\n                    acc, pred = candidate, p",
  "                if candidate < acc or pred is None:\n                    acc, pred = candidate, p")
m("c04-ignore-load-edge", ["C04"], "osaca/semantics/kernel_dg.py",
  "                    latency=instruction_form.latency - instruction_form.latency_wo_load,",
  "                    latency=0.0,")
m("c05-offset-off-by-one", ["C05", "C14"], "osaca/semantics/kernel_dg.py",
  "                        dg, instr.line_number, instr.line_number + offset\n                    )\n                )",
  "                        dg, instr.line_number, instr.line_number + offset + 1\n                    )\n                )")
m("c05-dedupe-latency-only", ["C05"], "osaca/semantics/kernel_dg.py",
  """            if tuple(lat_path) in paths_set:
                continue
            paths_set.add(tuple(lat_path))""",
  """            if lat_sum in paths_set:
                continue
            paths_set.add(lat_sum)""")
m("c05-no-mapback", ["C05", "C14"], "osaca/semantics/kernel_dg.py",
  """                if s >= offset:
                    s -= offset
                lat_path.append((s, edge_lat))""",
  """                lat_path.append((s if s < offset else s - offset + 0, edge_lat)) if s < offset else lat_path.append((s, edge_lat))""")
m("c05-summary-min", ["C05", "C13"], "osaca/frontend.py",
  """        lcd_lines = {}
        if dep_dict:
            longest_lcd = max(dep_dict, key=lambda ln: dep_dict[ln]["latency"])
            lcd_sum = dep_dict[longest_lcd]["latency"]
            lcd_lines = {
                instr.line_number: lat for instr, lat in dep_dict[longest_lcd]["dependencies"]
            }
        return {""",
  """        lcd_lines = {}
        if dep_dict:
            longest_lcd = min(dep_dict, key=lambda ln: dep_dict[ln]["latency"])
            lcd_sum = dep_dict[longest_lcd]["latency"]
            lcd_lines = {
                instr.line_number: lat for instr, lat in dep_dict[longest_lcd]["dependencies"]
            }
        return {""")
m("c14-scan-stops-at-boundary", ["C14", "C05"], "osaca/semantics/kernel_dg.py",
  """        tmp_kernel = [] + kernel
        for orig_iform in kernel:
            temp_iform = copy.copy(orig_iform)
            temp_iform.line_number += offset
            tmp_kernel.append(temp_iform)""",
  """        tmp_kernel = [] + kernel
        for orig_iform in kernel[:-1]:
            temp_iform = copy.copy(orig_iform)
            temp_iform.line_number += offset
            tmp_kernel.append(temp_iform)""")
m("c14-dedupe-by-root", ["C14", "C05"], "osaca/semantics/kernel_dg.py",
  "            lat_path.sort()\n", "            pass\n")

# ---- C09 / C10 parsers
m("c09-scale-default-0", ["C09"], "osaca/parser/parser_x86att.py",
  'scale = 1 if "scale" not in memory_address else int(memory_address["scale"], 0)',
  'scale = 0 if "scale" not in memory_address else int(memory_address["scale"], 0)')
m("c09-hex-offset-lost", ["C09"], "osaca/parser/parser_x86att.py",
  """        elif offset is not None and "value" in offset:
            offset = ImmediateOperand(value=int(offset["value"], 0))""",
  """        elif offset is not None and "value" in offset:
            offset = ImmediateOperand(value=int(offset["value"].replace("0x", ""), 10) if "a" not in offset["value"] and "b" not in offset["value"] and "c" not in offset["value"] and "d" not in offset["value"] and "e" not in offset["value"] and "f" not in offset["value"] and "A" not in offset["value"] and "B" not in offset["value"] and "C" not in offset["value"] and "D" not in offset["value"] and "E" not in offset["value"] and "F" not in offset["value"] else int(offset["value"], 0))""")
m("c09-numbering", ["C09", "C10"], "osaca/parser/base_parser.py",
  "        for i, line in enumerate(lines):\n            if line.strip() == \"\":\n                continue\n            asm_instructions.append(self.parse_line(line, i + 1 + start_line))",
  "        i = -1\n        for line in lines:\n            if line.strip() == \"\":\n                continue\n            i += 1\n            asm_instructions.append(self.parse_line(line, i + 1 + start_line))")
m("c09-index-base-swapped", ["C09"], "osaca/parser/parser_x86att.py",
  "        new_dict = MemoryOperand(offset=offset, base=baseOp, index=indexOp, scale=scale)",
  "        new_dict = MemoryOperand(offset=offset, base=baseOp if indexOp is None or baseOp is None else indexOp, index=indexOp if indexOp is None or baseOp is None else baseOp, scale=scale)")
m("c09-imm-sign", ["C09"], "osaca/parser/parser_x86att.py",
  '        new_immediate = ImmediateOperand(value=int(immediate["value"], 0))',
  '        new_immediate = ImmediateOperand(value=abs(int(immediate["value"], 0)) if int(immediate["value"], 0) < -2**40 else int(immediate["value"], 0))')
m("c10-shift-scale", ["C10"], "osaca/parser/parser_AArch64.py",
  '                    scale = 2 ** int(memory_address["index"]["shift"][0]["value"])',
  '                    scale = 2 * int(memory_address["index"]["shift"][0]["value"])')
m("c10-postindex-lost-sign", ["C10"], "osaca/parser/parser_AArch64.py",
  '                new_dict.post_indexed = {"value": int(memory_address["post_indexed"]["value"], 0)}',
  '                new_dict.post_indexed = {"value": abs(int(memory_address["post_indexed"]["value"], 0))}')
m("c10-range-off-by-one", ["C10"], "osaca/parser/parser_AArch64.py",
  "            for name in range(int(start_name), int(end_name) + 1):",
  "            for name in range(int(start_name), int(end_name)):")
m("c10-list-index-lost", ["C10"], "osaca/parser/parser_AArch64.py",
  """            for reg in operand["register"]["list"]:
                reg = deepcopy(reg)
                if index is not None:""",
  """            for reg in operand["register"]["list"]:
                reg = deepcopy(reg)
                if index is not None and False:""")
m("c10-sp-base-prefix", ["C10"], "osaca/parser/parser_AArch64.py",
  """        if base is not None and "name" in base and base["name"].lower() == "sp":
            base["prefix"] = "x\"""",
  """        if base is not None and "name" in base and base["name"].lower() == "sp":
            base["prefix"] = "w\"""")

# ---- C06
m("c06-disp-sign", ["C06"], "osaca/semantics/kernel_dg.py",
  "            if mem.offset:\n                addr_change -= mem.offset.value",
  "            if mem.offset:\n                addr_change += mem.offset.value")
m("c06-scale-ignored", ["C06"], "osaca/semantics/kernel_dg.py",
  "                if mem.scale != src.scale:\n                    # scale factors do not match\n                    continue",
  "                if False:\n                    continue")
m("c06-index-change-unscaled", ["C06"], "osaca/semantics/kernel_dg.py",
  '                addr_change += index_change["value"] * src.scale', '                addr_change += index_change["value"]')
m("c06-no-forward-latency", ["C06"], "osaca/semantics/kernel_dg.py",
  '                    edge_weight += self.model.get("store_to_load_forward_latency", 0)',
  '                    edge_weight += 0')
m("c06-second-store-no-stop", ["C06"], "osaca/semantics/kernel_dg.py",
  "                    if self.is_memstore(dst, instr_form, register_changes):\n                        break",
  "                    if self.is_memstore(dst, instr_form, register_changes):\n                        pass")
m("c06-copy-ignored", ["C06"], "osaca/semantics/kernel_dg.py",
  '                if change["name"] != reg:', '                if False and change["name"] != reg:')
m("c06-dec-as-inc", ["C06"], "osaca/data/isa/x86.yml",
  "op1['value'] -= 1", "op1['value'] += 1")

# ---- C07
m("c07-no-count-check", ["C07"], "osaca/semantics/hw_model.py",
  "        if len(operands) != len(i_operands):\n            return False",
  "        if len(operands) > len(i_operands):\n            return False")
m("c07-gpr-excludes-r8", ["C07"], "osaca/semantics/hw_model.py",
  '            if i_reg_name == "gpr":\n                return True',
  '            if i_reg_name == "gpr":\n                return not any(ch.isdigit() for ch in reg.name)')
m("c07-scale-class-inverted", ["C07"], "osaca/semantics/hw_model.py",
  """                or (mem.scale != 1 and i_mem.scale != 1)
            )
        ):
            return True
        return False

    def _create_yaml_object""",
  """                or (mem.scale == 1 and i_mem.scale != 1)
            )
        ):
            return True
        return False

    def _create_yaml_object""")
m("c07-suffix-strips-two", ["C07"], "osaca/semantics/arch_semantics.py",
  """                # check for instruction without GAS suffix
                instruction_data = self._machine_model.get_instruction(
                    instruction_form.mnemonic[:-1], instruction_form.operands
                )""",
  """                # check for instruction without GAS suffix
                instruction_data = self._machine_model.get_instruction(
                    instruction_form.mnemonic[:-2], instruction_form.operands
                )""")
m("c07-name-not-uppercased", ["C07"], "osaca/semantics/hw_model.py",
  '        name_matched_iforms = self._data["instruction_forms_dict"].get(name.upper(), [])',
  '        name_matched_iforms = self._data["instruction_forms_dict"].get(name, [])')
m("c07-a64-shape-ignored", ["C07"], "osaca/semantics/hw_model.py",
  """        if reg.prefix != i_reg.prefix:
            return False
        if reg.shape is not None:""",
  """        if reg.prefix != i_reg.prefix:
            return False
        if reg.shape is not None and False:""")
m("c07-cc-wildcard-literal", ["C07"], "osaca/semantics/hw_model.py",
  "                return (i_operand.ccode == self.WILDCARD) or (i_operand.ccode == operand.ccode)",
  "                return i_operand.ccode == operand.ccode")
m("c07-a64-postindex-ignored", ["C07"], "osaca/semantics/hw_model.py",
  """                or mem.post_indexed == i_mem.post_indexed
                or (isinstance(mem.post_indexed, dict) and i_mem.post_indexed)""",
  """                or True""")
m("c07-x86-imm-matches-any", ["C07"], "osaca/semantics/hw_model.py",
  '            return isinstance(i_operand, ImmediateOperand) and i_operand.imd_type == "int"',
  '            return not isinstance(i_operand, MemoryOperand)')

# ---- C08
m("c08-load-lat-wrong-type", ["C08"], "osaca/semantics/arch_semantics.py",
  "                            self._machine_model.get_load_latency(reg_type)\n                            if INSTR_FLAGS.HAS_LD in instruction_form.flags",
  "                            self._machine_model.get_load_latency(\"gpr\" if self._isa == \"x86\" else \"x\")\n                            if INSTR_FLAGS.HAS_LD in instruction_form.flags")
m("c08-tp-sum", ["C08"], "osaca/semantics/arch_semantics.py",
  "                            throughput = max(\n                                max(data_port_pressure), instruction_data_reg.throughput\n                            )",
  "                            throughput = sum(\n                                [max(data_port_pressure), instruction_data_reg.throughput]\n                            )")
m("c08-multiplier-twice", ["C08"], "osaca/semantics/arch_semantics.py",
  "                                data_port_pressure = [pp * multiplier for pp in data_port_pressure]",
  "                                data_port_pressure = [pp * multiplier * multiplier for pp in data_port_pressure]")
m("c08-store-before-load-rows", ["C08"], "osaca/semantics/arch_semantics.py",
  "                            data_port_uops = data_port_uops + st_data_port_uops",
  "                            data_port_uops = st_data_port_uops")
m("c08-unknown-keeps-pressure", ["C08"], "osaca/semantics/arch_semantics.py",
  "                    instruction_form.port_pressure = [0.0 for i in range(port_number)]\n                    # instruction_formport_uops = []",
  "                    instruction_form.port_pressure = [1.0 for i in range(port_number)]\n                    # instruction_formport_uops = []")
m("c08-first-row-always", ["C08"], "osaca/semantics/hw_model.py",
  "        ld_tp = [m for m in self._data[\"load_throughput\"] if self._match_mem_entries(memory, m[0])]",
  "        ld_tp = [m for m in self._data[\"load_throughput\"]]")
m("c08-inplace-extend", ["C08", "C18"], "osaca/semantics/arch_semantics.py",
  "                            data_port_uops = data_port_uops + st_data_port_uops",
  "                            data_port_uops += st_data_port_uops")

# ---- C11 / C13
m("c11-start-off", ["C11"], "osaca/semantics/marker_utils.py",
  "                        index_start = i + 1 + line_count", "                        index_start = i + line_count")
m("c11-end-off", ["C11"], "osaca/semantics/marker_utils.py",
  "                        # return line of the marker\n                        index_end = i",
  "                        # return line of the marker\n                        index_end = i + 1")
m("c11-range-exclusive", ["C11"], "osaca/osaca.py",
  "            rnge = list(range(start, end + 1))", "            rnge = list(range(start, end))")
m("c11-marker-value-ge", ["C11"], "osaca/semantics/marker_utils.py",
  "                    and parser.normalize_imd(source) == mov_vals[0]",
  "                    and parser.normalize_imd(source) >= mov_vals[0] and parser.normalize_imd(source) < mov_vals[1]")
m("c11-comment-latency", ["C11"], "osaca/semantics/arch_semantics.py",
  "            # No instruction (label, comment, ...) --> ignore\n            throughput = 0.0\n            latency = 0.0",
  "            # No instruction (label, comment, ...) --> ignore\n            throughput = 0.0\n            latency = 1.0 if instruction_form.comment is not None else 0.0")
m("c11-marker-reg-any", ["C11"], "osaca/semantics/marker_utils.py",
  """                    and isinstance(destination, RegisterOperand)
                    and parser.get_full_reg_name(destination) == mov_reg
                ):
                    # operands of first instruction match start, check for second one""",
  """                    and isinstance(destination, RegisterOperand)
                ):
                    # operands of first instruction match start, check for second one""")
m("c13-separator-shift", ["C13"], "osaca/frontend.py",
  "        for i in range(len(self._machine_model.get_ports()) - 1):\n            match_1 = re.search(r\"\\d+\", self._machine_model.get_ports()[i])",
  "        for i in range(1, len(self._machine_model.get_ports())):\n            match_1 = re.search(r\"\\d+\", self._machine_model.get_ports()[i - 1])")
m("c13-lcd-min", ["C13"], "osaca/frontend.py",
  """        if dep_dict:
            longest_lcd = max(dep_dict, key=lambda ln: dep_dict[ln]["latency"])
            lcd_sum = dep_dict[longest_lcd]["latency"]
            lcd_lines = {
                instr.line_number: lat for instr, lat in dep_dict[longest_lcd]["dependencies"]
            }

        port_line""",
  """        if dep_dict:
            longest_lcd = min(dep_dict, key=lambda ln: dep_dict[ln]["latency"])
            lcd_sum = dep_dict[longest_lcd]["latency"]
            lcd_lines = {
                instr.line_number: lat for instr, lat in dep_dict[longest_lcd]["dependencies"]
            }

        port_line""")
m("c13-summary-despite-unknown", ["C13"], "osaca/frontend.py",
  "        if not ignore_unknown and INSTR_FLAGS.TP_UNKWN in [",
  "        if False and not ignore_unknown and INSTR_FLAGS.TP_UNKWN in [")
m("c13-warning-flags-swapped", ["C13"], "osaca/frontend.py",
  "            + self._user_warnings_header(arch_warning, length_warning)",
  "            + self._user_warnings_header(length_warning, arch_warning)")
m("c13-precision", ["C13"], "osaca/frontend.py",
  '            substr = "{:" + str(left_len) + "." + str(max(port_len[i] - left_len - 1, 0)) + "f}"',
  '            substr = "{:" + str(left_len) + "." + str(max(port_len[i] - left_len - 2, 0)) + "f}"')
m("c13-missing-count", ["C13"], "osaca/frontend.py",
  "                [instr.flags for instr in kernel if INSTR_FLAGS.TP_UNKWN in instr.flags]\n            )",
  "                [instr.flags for instr in kernel if INSTR_FLAGS.TP_UNKWN in instr.flags]\n            ) + 1")
m("c13-length-threshold", ["C13"], "osaca/osaca.py",
  "            True if len(kernel) == len(parsed_code) and len(kernel) > 100 else False",
  "            True if len(kernel) == len(parsed_code) and len(kernel) > 150 else False")

# ---- C20
m("c20-range-9", ["C20"], "osaca/db_interface.py",
  "        reciprocals = [1 / x for x in range(1, 11)]", "        reciprocals = [1 / x for x in range(1, 10)]")
m("c20-tolerance", ["C20"], "osaca/db_interface.py",
  "            if reci * 0.95 <= measurement <= reci * 1.05:", "            if reci * 0.9 <= measurement <= reci * 1.1:")
m("c20-tp-lt-swapped", ["C20"], "osaca/db_interface.py",
  """                throughput=_validate_measurement(float(input_data[i + 2].split()[1]), "tp"),
                latency=_validate_measurement(float(input_data[i + 1].split()[1]), "lt"),""",
  """                throughput=_validate_measurement(float(input_data[i + 1].split()[1]), "tp"),
                latency=_validate_measurement(float(input_data[i + 2].split()[1]), "lt"),""")
m("c20-y-as-xmm", ["C20"], "osaca/db_interface.py",
  '        return {"class": "register", "name": operand + "mm"}',
  '        return {"class": "register", "name": ("x" if operand == "y" else operand) + "mm"}')
m("c20-continue-after-malformed", ["C20"], "osaca/db_interface.py",
  """                "Entry {} and all further entries won't be added.".format((i / 4) + 1),
                file=sys.stderr,
            )
            break""",
  """                "Entry {} and all further entries won't be added.".format((i / 4) + 1),
                file=sys.stderr,
            )
            continue""")
m("c20-lt-always-round", ["C20"], "osaca/db_interface.py",
  "            math.floor(measurement) * 1.05 >= measurement\n            or math.ceil(measurement) * 0.95 <= measurement",
  "            math.floor(measurement) * 1.05 >= measurement\n            or math.ceil(measurement) * 0.75 <= measurement")
m("c20-a64-post-pre-swapped", ["C20"], "osaca/db_interface.py",
  '            "pre_indexed": True if "r" in operand else False,\n            "post_indexed": True if "p" in operand else False,',
  '            "pre_indexed": True if "p" in operand else False,\n            "post_indexed": True if "r" in operand else False,')
m("c20-merge-lost", ["C20"], "osaca/db_interface.py",
  '        key = "-".join(instruction.split("-")[:2])', '        key = instruction')

# ---- C17 / C18
m("c17-key-without-hash", ["C17"], "osaca/semantics/hw_model.py",
  "        p = Path(filepath)\n        hexhash = hashlib.sha256(p.read_bytes()).hexdigest()\n\n        # 1. companion cachefile: same location, with '.<name>_<sha512hash>.pickle'\n        companion_cachefile = p.with_name(\".\" + p.stem + \"_\" + hexhash + \".pickle\")\n        if companion_cachefile.exists():",
  "        p = Path(filepath)\n        hexhash = \"0\" * 64\n\n        # 1. companion cachefile: same location, with '.<name>_<sha512hash>.pickle'\n        companion_cachefile = p.with_name(\".\" + p.stem + \"_\" + hexhash + \".pickle\")\n        if companion_cachefile.exists():")
m("c17-unreadable-not-ignored", ["C17"], "osaca/semantics/hw_model.py",
  "        except Exception:\n            # e.g., interrupted or concurrent write -> ignore cache and rebuild\n            return None",
  "        except AttributeError:\n            # e.g., interrupted or concurrent write -> ignore cache and rebuild\n            return None")
m("c17-home-cache-stale", ["C17"], "osaca/semantics/hw_model.py",
  "        home_cachefile = Path(utils.CACHE_DIR) / (p.stem + \"_\" + hexhash + \".pickle\")\n        if home_cachefile.exists():",
  "        home_cachefile = Path(utils.CACHE_DIR) / (p.stem + \"_\" + hexhash + \".pickle\")\n        import glob as _g\n        _c = _g.glob(str(Path(utils.CACHE_DIR) / (p.stem + \"_*.pickle\")))\n        if _c:\n            home_cachefile = Path(_c[0])\n        if home_cachefile.exists():")
m("c17-runtime-cache-authoritative", ["C17", "C18"], "osaca/semantics/hw_model.py",
  "            cached = self._get_cached(self._path) if not lazy else False",
  "            cached = (self._get_cached(self._path) if self._path not in MachineModel._runtime_cache else MachineModel._runtime_cache[self._path]) if not lazy else False")
m("c18-mutable-default-operands", ["C18"], "osaca/semantics/isa_semantics.py",
  "        if self._has_load(instruction_form):\n            instruction_form.flags += [INSTR_FLAGS.HAS_LD]",
  "        if self._has_load(instruction_form):\n            instruction_form.flags += [INSTR_FLAGS.HAS_LD]\n            ISASemantics._seen = getattr(ISASemantics, \"_seen\", 0) + 1\n            if ISASemantics._seen > 40:\n                instruction_form.flags += [INSTR_FLAGS.LT_UNKWN]")
m("c18-model-entry-mutated", ["C18", "C08"], "osaca/semantics/arch_semantics.py",
  "        instruction_form.port_uops = instruction_data.port_pressure\n",
  "        instruction_form.port_uops = instruction_data.port_pressure\n        if isinstance(instruction_data.port_pressure, list) and len(instruction_data.port_pressure) > 1 and instruction_data.latency:\n            instruction_data.latency += 1\n")

# ---- C16 / C19
m("c16-drop-tail", ["C16"], "osaca/semantics/kernel_dg.py",
  "            workload = int((klen - 1) / num_cores) + 1", "            workload = max(1, klen // num_cores)")
m("c16-overlap", ["C16"], "osaca/semantics/kernel_dg.py",
  "            ends = [min((tid + 1) * workload, klen) for tid in range(num_cores)]",
  "            ends = [min((tid + 1) * workload + 1, klen) for tid in range(num_cores)]")
m("c16-sort-only-sequential", ["C16"], "osaca/semantics/kernel_dg.py",
  "        loopcarried_deps.sort(reverse=True)", "        if klen < self.INSTRUCTION_THRESHOLD:\n            loopcarried_deps.sort(reverse=True)")
m("c19-no-kill", ["C19"], "osaca/semantics/kernel_dg.py",
  "                                os.kill(p.pid, signal.SIGKILL)\n                            p.join()",
  "                                pass\n                            p.join()")
m("c19-flag-never", ["C19", "C13"], "osaca/semantics/kernel_dg.py",
  "                                # search was cut short\n                                self.timed_out = True",
  "                                # search was cut short\n                                self.timed_out = False")
m("c19-flag-always", ["C19"], "osaca/semantics/kernel_dg.py",
  "                    else:\n                        # terminate running processes",
  "                    else:\n                        self.timed_out = True\n                        # terminate running processes")
m("c19-workers-not-joined", ["C19"], "osaca/semantics/kernel_dg.py",
  "                            if p.is_alive():\n                                # search was cut short",
  "                            if p.is_alive() and p is not processes[-1]:\n                                # search was cut short")
m("c19-timeout-ignored", ["C19"], "osaca/semantics/kernel_dg.py",
  "                    while time.time() - start_time <= timeout:", "                    while time.time() - start_time <= timeout + 30:")
