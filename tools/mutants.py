"""Registry of deliberate breaks used to validate sensitivity: name -> (props, file, old, new)."""
M = {}


def m(name, props, file, old, new):
    M[name] = (props, file, old, new)


# ---- C01 / C02
m("c01-uniform-div", ["C01"], "osaca/semantics/hw_model.py",
  "average_pressure[port_list.index(p)] += cycles / len(ports)",
  "average_pressure[port_list.index(p)] += cycles / (len(ports) + 1)")
m("c01-sum-nofilter", ["C01"], "osaca/semantics/arch_semantics.py",
  "port_pressures = [instr.port_pressure for instr in kernel if instr.throughput != 0.0]",
  "port_pressures = [instr.port_pressure for instr in kernel if instr.mnemonic is not None]")
m("c01-cap-removed", ["C01", "C02"], "osaca/semantics/arch_semantics.py",
  "                        if round(min(differences), 2) <= 0:",
  "                        if False and round(min(differences), 2) <= 0:")
m("c02-wrong-direction", ["C02", "C01"], "osaca/semantics/arch_semantics.py",
  """                        instr_ports[max_port_idx] -= INC
                        instr_ports[min_port_idx] += INC
                        differences[max_port_idx] -= INC
                        differences[min_port_idx] += INC""",
  """                        instr_ports[max_port_idx] += INC
                        instr_ports[min_port_idx] -= INC
                        differences[max_port_idx] += INC
                        differences[min_port_idx] -= INC""")
m("c02-balancer-off", ["C02"], "osaca/semantics/arch_semantics.py",
  "                if len(set(port_sums)) > 1:",
  "                if False and len(set(port_sums)) > 1:")
m("c02-step-0.1", ["C02"], "osaca/semantics/arch_semantics.py",
  "        INC = 0.01\n", "        INC = 0.1\n")
m("c02-first-uop-only", ["C02"], "osaca/semantics/arch_semantics.py",
  "            for uop in instruction_form.port_uops:\n                cycles = uop[0]",
  "            for uop in instruction_form.port_uops[:1]:\n                cycles = uop[0]")
