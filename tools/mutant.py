#!/venv/bin/python
"""mutant.py <name>|all [--tier quick] : apply a registered mutant to a scratch worktree of /repo,
run the listed checks against it (VERIF_REPO), report detected / missed, remove the worktree."""
import os, subprocess, sys, shutil, tempfile, time
sys.path.insert(0, '/verif/tools'); sys.path.insert(0, '/verif')
from mutants import M

def run(name, only=None):
    props, file, old, new = M[name]
    wt = tempfile.mkdtemp(prefix='mutwt-')
    os.rmdir(wt)
    subprocess.run(['git', '-C', '/repo', 'worktree', 'add', '--detach', '-q', wt, 'HEAD'], check=True)
    try:
        p = os.path.join(wt, file)
        s = open(p).read()
        assert s.count(old) == 1, (name, 'pattern count', s.count(old))
        open(p, 'w').write(s.replace(old, new))
        out = []
        for prop in props:
            if only and prop not in only:
                continue
            ev = tempfile.mkdtemp(prefix='mutev-')
            env = dict(os.environ, VERIF_REPO=wt, VERIF_EVIDENCE_DIR=ev, VERIF_FOUND_DIR=ev)
            t = time.time()
            r = subprocess.run(['/verif/check', prop, '--tier', 'quick'], env=env, capture_output=True, text=True)
            viol = [l for l in r.stdout.splitlines() if l.startswith('VIOLATION')]
            clause = [l.strip() for l in r.stdout.splitlines() if l.strip().startswith(('clause:', 'bucket:'))][:2]
            out.append((prop, r.returncode, len(viol), round(time.time() - t), clause))
            if r.returncode == 2:
                print(r.stdout[-1500:])
            shutil.rmtree(ev, ignore_errors=True)
        return out
    finally:
        try:
            h = subprocess.run(['/venv/bin/python', '-c', 'from lib import env; print(env.home_dir())'], cwd='/verif',
                               env=dict(os.environ, VERIF_REPO=wt, PYTHONPATH='/verif'), capture_output=True, text=True).stdout.strip()
            if h.startswith('/verif/.cache/home-'):
                shutil.rmtree(h, ignore_errors=True)
        except Exception:
            pass
        subprocess.run(['git', '-C', '/repo', 'worktree', 'remove', '--force', wt])
        shutil.rmtree(wt, ignore_errors=True)

names = sys.argv[1:]
only = None
if '--only' in names:
    i = names.index('--only'); only = names[i+1].split(','); names = names[:i]
if names == ['all']:
    names = list(M)
for n in names:
    if n.endswith('*'):
        sel = [k for k in M if k.startswith(n[:-1])]
    else:
        sel = [n]
    for k in sel:
        for prop, rc, nv, secs, clause in run(k, only):
            print('%-28s %-4s %s rc=%d violations=%d %ss %s' % (k, prop, 'DETECTED' if rc == 1 else 'MISSED' if rc == 0 else 'ERROR', rc, nv, secs, clause))
