#!/bin/sh
# applyseed.sh <seed-id> <check> [more checks] : scratch worktree of HEAD + patch, run quick checks against it
s=$1; shift
wt=/tmp/wt-$s
rm -rf $wt; git -C /repo worktree add --detach -q $wt HEAD
if ! git -C $wt apply ${PATCH:-/verif/seeded/$s/patch.diff}; then echo "PATCH DOES NOT APPLY"; git -C /repo worktree remove --force $wt; exit 3; fi
cd /verif
for c in "$@"; do
  ev=$(mktemp -d /tmp/ev-XXXXXX)
  VERIF_REPO=$wt VERIF_EVIDENCE_DIR=$ev VERIF_FOUND_DIR=$ev/found ./check $c > $ev/out 2>&1; rc=$?
  echo "$s $c rc=$rc $(grep -c VIOLATION $ev/out) violations"; grep -E "^  (clause|bucket)" $ev/out | head -4
  rm -rf $ev
done
h=$(VERIF_REPO=$wt /venv/bin/python -c 'from lib import env; print(env.home_dir())'); rm -rf "$h"
git -C /repo worktree remove --force $wt
