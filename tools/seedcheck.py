#!/venv/bin/python
"""seedcheck.py <ID> <outdir> <checks,comma> [--keep]: confirm an independently produced breaking change and run checks on it.
 1. fresh worktree of /repo HEAD, apply <outdir>/patch.diff
 2. baseline (42 stable tests) on the patched tree
 3. demo.py on /repo (expect 0) and on the patched tree (expect 1)
 4. the listed quick checks with VERIF_REPO=<patched tree>
writes /verif/seeded/<ID>/{patch.diff,demo.py,notes.md,meta.json}"""
import json, os, shutil, subprocess, sys, tempfile, time
sid, outdir, checks = sys.argv[1], sys.argv[2], sys.argv[3].split(',')
wt = tempfile.mkdtemp(prefix='seedwt-'); os.rmdir(wt)
subprocess.run(['git', '-C', '/repo', 'worktree', 'add', '--detach', '-q', wt, 'HEAD'], check=True)
meta = {'id': sid, 'repo_head': subprocess.run(['git', '-C', '/repo', 'rev-parse', '--short', 'HEAD'], capture_output=True, text=True).stdout.strip()}
try:
    r = subprocess.run(['git', '-C', wt, 'apply', os.path.join(outdir, 'patch.diff')], capture_output=True, text=True)
    meta['patch_applies'] = r.returncode == 0
    if r.returncode != 0:
        print('PATCH DOES NOT APPLY', r.stderr[:500]); sys.exit(2)
    b = subprocess.run(['/verif/tools/baseline.sh', wt], capture_output=True, text=True)
    meta['baseline'] = b.stdout.strip().splitlines()[0] if b.stdout.strip() else 'no output'
    for f in ('tests/test_files/kernel_aarch64.s.copy.s', 'tests/test_files/kernel_x86.s.copy.s'):
        try: os.remove(os.path.join(wt, f))
        except OSError: pass
    env = dict(os.environ, PYTHONHASHSEED='0')
    d0 = subprocess.run(['/venv/bin/python', os.path.join(outdir, 'demo.py'), '/repo'], capture_output=True, text=True, env=env, timeout=1800)
    d1 = subprocess.run(['/venv/bin/python', os.path.join(outdir, 'demo.py'), wt], capture_output=True, text=True, env=env, timeout=1800)
    meta['demo_on_repo_exit'] = d0.returncode; meta['demo_on_patched_exit'] = d1.returncode
    meta['demo_on_patched_output'] = (d1.stdout + d1.stderr)[-600:]
    res = {}
    for c in checks:
        ev = tempfile.mkdtemp(prefix='seedev-')
        e = dict(os.environ, VERIF_REPO=wt, VERIF_EVIDENCE_DIR=ev, VERIF_FOUND_DIR=ev)
        t = time.time()
        r = subprocess.run(['/verif/check', c, '--tier', 'quick'], env=e, capture_output=True, text=True)
        clause = [l.strip() for l in r.stdout.splitlines() if l.strip().startswith(('clause:', 'bucket:'))][:4]
        res[c] = {'exit': r.returncode, 'detected': r.returncode == 1, 'seconds': round(time.time() - t), 'first_clauses': clause}
        if r.returncode == 2: print(r.stdout[-1200:])
        shutil.rmtree(ev, ignore_errors=True)
    meta['checks'] = res
    dst = '/verif/seeded/%s' % sid
    os.makedirs(dst, exist_ok=True)
    for f in ('patch.diff', 'demo.py', 'notes.md'):
        if os.path.exists(os.path.join(outdir, f)): shutil.copy(os.path.join(outdir, f), dst)
    old = {}
    if os.path.exists(os.path.join(dst, 'meta.json')):
        old = json.load(open(os.path.join(dst, 'meta.json')))
    old.update(meta)
    json.dump(old, open(os.path.join(dst, 'meta.json'), 'w'), indent=1)
    print(json.dumps(meta, indent=1)[:3000])
finally:
    try:
        h = subprocess.run(['/venv/bin/python', '-c', 'from lib import env; print(env.home_dir())'], cwd='/verif',
                           env=dict(os.environ, VERIF_REPO=wt, PYTHONPATH='/verif'), capture_output=True, text=True).stdout.strip()
        if h.startswith('/verif/.cache/home-'): shutil.rmtree(h, ignore_errors=True)
    except Exception: pass
    subprocess.run(['git', '-C', '/repo', 'worktree', 'remove', '--force', wt])
    shutil.rmtree(wt, ignore_errors=True)
