#!/venv/bin/python
"""Regenerate MANIFEST.json from the check modules present in checks/ (keeps it valid at all times)."""
import importlib
import json
import os
import sys

VERIF = os.path.dirname(os.path.dirname(os.path.abspath(__file__)))
sys.path.insert(0, VERIF)
os.environ.setdefault("VERIF_NO_OSACA", "1")

props = [json.loads(l) for l in open(os.path.join(VERIF, "properties.jsonl"))]
checks = []
na = []
NA_REASONS = {}
try:
    NA_REASONS = json.load(open(os.path.join(VERIF, "tools", "not_applicable.json")))
except FileNotFoundError:
    pass
for p in props:
    pid = p["id"]
    path = os.path.join(VERIF, "checks", pid.lower() + ".py")
    if not os.path.exists(path) or pid in NA_REASONS:
        na.append({"property_id": pid, "reason": NA_REASONS.get(
            pid, "check not built yet in this round (planned: see DESIGN.md section 4)")})
        continue
    m = importlib.import_module("checks." + pid.lower())
    checks.append({
        "property_id": pid,
        "quick_cmd": "./check %s --tier quick" % pid,
        "thorough_cmd": "./check %s --tier thorough" % pid,
        "evidence_file": "/verif/evidence/%s.json" % pid,
        "replay_cmd_template": "./check %s --replay {path}" % pid,
        "engine": "pbt-runner",
        "level_claimed": {
            "category": m.LEVEL,
            "text": m.LEVEL_TEXT,
            "design_ref": "DESIGN.md section 4, %s" % pid,
        },
        "level_note": m.LEVEL_NOTE,
        "technique": m.TECHNIQUE,
    })
man = {
    "version": 1,
    "setup_cmd": "./setup.sh",
    "hooks": {
        "guard": "OSACA_VERIF",
        "enable": "none needed: no in-tree hooks exist; checks import osaca from /repo (or $VERIF_REPO) as it is",
        "baseline_off_cmd": "cd /repo && /venv/bin/python -m pytest -ra -q -p no:cacheprovider --timeout=900 --continue-on-collection-errors",
        "source_commits": [],
        "add_only": True,
    },
    "engines": [{
        "name": "pbt-runner",
        "path": "/verif/check",
        "serves_properties": [c["property_id"] for c in checks],
        "kind_free_text": "Hypothesis-driven generated-input search (16 seeded shards, one process each) and exhaustive "
                          "enumeration of finite domains against explicit reference oracles; shrunk failures become JSON replay files",
    }],
    "checks": checks,
    "not_applicable": na,
    "notes": "All checks run OSACA from /repo's working tree against a private HOME (model caches rebuilt per code hash). "
             "known_findings.json lists recorded defects and 'fixed:' entries. Exit 2 = harness error, never a violation.",
}
json.dump(man, open(os.path.join(VERIF, "MANIFEST.json"), "w"), indent=1)
print("checks:", [c["property_id"] for c in checks], "n/a:", [n["property_id"] for n in na])
