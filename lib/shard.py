"""Worker process: python -m lib.shard <PROP> <spec.json> <out.json>"""
import importlib
import json
import os
import sys
import traceback

from lib import env

env.setup_process()

from lib.core import Violation, failure_record  # noqa: E402


def main():
    prop, specf, out = sys.argv[1:4]
    with open(specf) as fh:
        spec = json.load(fh)
    mod = importlib.import_module("checks." + prop.lower())
    if spec.get("kind") == "__replays__":
        failures = []
        n = 0
        for f in spec["files"]:
            with open(f) as fh:
                rec = json.load(fh)
            case = rec["case"] if isinstance(rec, dict) and "case" in rec else rec
            n += 1
            try:
                mod.replay(case)
            except Violation as v:
                fr = failure_record(prop, case, v)
                fr["file"] = f
                failures.append(fr)
        res = {"stats": {"evaluations": n, "nontrivial": [], "classes": {}, "samples": [],
                         "excluded": {}}, "failures": failures}
    else:
        res = mod.run_shard(spec)
    with open(out, "w") as fh:
        json.dump(res, fh)


if __name__ == "__main__":
    try:
        main()
    except SystemExit:
        raise
    except BaseException:  # noqa
        traceback.print_exc()
        sys.exit(3)
