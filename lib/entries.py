"""G-entry-instr: for a model entry, an instruction written with operands of exactly the kinds the entry
declares - as assembly text that the real parser turns into operand objects."""
from osaca.parser.condition import ConditionOperand
from osaca.parser.identifier import IdentifierOperand
from osaca.parser.immediate import ImmediateOperand
from osaca.parser.memory import MemoryOperand
from osaca.parser.prefetch import PrefetchOperand
from osaca.parser.register import RegisterOperand

X86_CLASS = {"gpr": ["rax", "rbx", "r9", "ecx", "r10d"], "xmm": ["xmm1", "xmm14"], "ymm": ["ymm2", "ymm15"],
             "zmm": ["zmm3", "zmm30"], "mm": ["mm1", "mm6"], "k": ["k1", "k5"]}


class Unsupported(Exception):
    pass


def _pick(seq, v):
    return seq[v % len(seq)]


def x86_reg_text(op, v=0):
    n = op.name
    if n is None:
        raise Unsupported("register pattern without name")
    if n == "*":
        return "%" + _pick(["rbx", "xmm4", "r11"], v)
    if n.lower() in X86_CLASS:
        return "%" + _pick(X86_CLASS[n.lower()], v)
    # anything else is a concrete register name (mm0, cl, ...)
    return "%" + n.lower()


def x86_mem_text(op, v=0):
    def part(p, wild_choices):
        if p is None:
            return None
        if p == "*":
            return _pick(wild_choices, v)
        return p

    base = part(op.base, ["gpr", None, "gpr"])
    index = part(op.index, [None, "gpr", "gpr"])
    offset = part(op.offset, ["imd", None, "imd"])
    scale = op.scale
    if isinstance(base, RegisterOperand):
        base = base.name
    if isinstance(index, RegisterOperand):
        index = index.name
    if base is None and index is None and offset is None:
        if op.base == "*":
            base = "gpr"
        elif op.offset == "*":
            offset = "imd"
        else:
            raise Unsupported("empty memory pattern")
    if scale == "*":
        sc = _pick([1, 4, 8], v) if index else 1
    else:
        sc = scale
    s = ""
    if offset is not None:
        if offset == "imd":
            # displacement-only operands are absolute addresses: non-negative
            s += _pick(["8", "-16", "0x20"], v) if (base is not None or index is not None) else \
                _pick(["8", "16", "0x20"], v)
        elif offset == "id":
            s += "sym"
        else:
            raise Unsupported("offset pattern %r" % (offset,))
    if base is None and index is None:
        return s
    s += "("
    if base is not None:
        s += "%" + _pick(X86_CLASS.get(base, [base]), v + 1)
    if index is not None:
        s += ",%" + _pick(X86_CLASS.get(index, [index]), v + 2) + ",%d" % sc
    return s + ")"


def x86_text(mnemonic, operands, v=0):
    parts = []
    for i, op in enumerate(operands):
        if isinstance(op, RegisterOperand):
            parts.append(x86_reg_text(op, v + i))
        elif isinstance(op, MemoryOperand):
            parts.append(x86_mem_text(op, v + i))
        elif isinstance(op, ImmediateOperand):
            parts.append("$" + _pick(["1", "0", "-3", "0x10"], v))
        elif isinstance(op, IdentifierOperand):
            parts.append(_pick([".L12", "foo", "1f"], v))
        else:
            raise Unsupported("operand %r" % (op,))
    return (mnemonic.lower() + " " + ", ".join(parts)).strip()


A64_SHAPE_LANES = {"b": "16", "h": "8", "s": "4", "d": "2", "q": "1"}


def a64_reg_text(op, v=0):
    p, sh = op.prefix, op.shape
    num = _pick(["1", "7", "19"], v)
    if p is None:
        raise Unsupported("register without prefix")
    if p == "*":
        if sh is None:
            return _pick(["x", "w", "d"], v) + num
        p = _pick(["v", "z"], v)
    if p not in "xwbhsdqvzp":
        raise Unsupported("register prefix %r" % p)
    if p == "v":
        if sh is None:
            return "v" + num
        s = _pick(["s", "d", "b", "h"], v) if sh == "*" else sh
        return "v%s.%s%s" % (num, A64_SHAPE_LANES[s], s)
    if p == "z":
        if sh is None:
            return "z" + num
        s = _pick(["d", "s"], v) if sh == "*" else sh
        return "z%s.%s" % (num, s)
    if p == "p":
        pn = _pick(["1", "5"], v)
        if sh is None:
            return "p" + pn + _pick(["", "/m", "/z"], v)
        s = _pick(["d", "s"], v) if sh == "*" else sh
        return "p%s.%s" % (pn, s)
    return p + num


def a64_mem_text(op, v=0):
    base = op.base
    if isinstance(base, RegisterOperand):
        base = base.prefix or base.name
    if base == "*":
        base = "x"
    if base not in ("x", "w"):
        raise Unsupported("memory base %r" % (base,))
    pre, post = op.pre_indexed, op.post_indexed
    if pre == "*" and post == "*":
        pre, post = _pick([(False, False), (True, False), (False, True)], v)
    index = op.index
    if isinstance(index, RegisterOperand):
        index = index.prefix
    offset = op.offset
    if index == "*":
        index = _pick([None, "x", None], v) if not (pre or post) else None
    if offset == "*":
        offset = "imd" if (index is None) else None
        if not (pre or post) and index is None:
            offset = _pick(["imd", None, "imd"], v)
    scale = op.scale
    b = "%s%s" % (base, _pick(["2", "sp" if base == "x" else "3", "11"], v)) if base == "x" else "w3"
    if b == "xsp":
        b = "sp"
    if (pre or post) and op.index not in ("*", None):
        raise Unsupported("write-back together with a register index")
    if pre:
        if offset is None:
            offset = "imd"
        return "[%s, #%s]!" % (b, _pick(["16", "-32", "8"], v))
    if post:
        if isinstance(post, dict):
            raise Unsupported("post-index pattern dict")
        return "[%s], #%s" % (b, _pick(["16", "32", "8"], v))
    if index is not None and offset is not None:
        if op.offset == "*":
            offset = None
        else:
            raise Unsupported("immediate offset together with register index")
    s = "[" + b
    if offset is not None:
        if offset == "imd":
            s += ", #%s" % _pick(["8", "256", "16"], v)
        else:
            raise Unsupported("offset %r" % (offset,))
    if index is not None:
        if index in ("x", "w"):
            s += ", %s%s" % (index, _pick(["4", "9"], v))
            if scale == "*":
                sc = _pick([None, 3, 2], v)
            elif scale in (1, None):
                sc = None
            else:
                sc = {2: 1, 4: 2, 8: 3, 16: 4}.get(scale)
            if sc:
                s += ", lsl #%d" % sc if index == "x" else ", sxtw #%d" % sc
        elif index == "z":
            s += ", z%s.d" % _pick(["4", "9"], v)
            if scale not in (1, None):
                s += ", lsl #3"
        else:
            raise Unsupported("index %r" % (index,))
    return s + "]"


def a64_text(mnemonic, operands, v=0):
    parts = []
    for i, op in enumerate(operands):
        if isinstance(op, RegisterOperand):
            parts.append(a64_reg_text(op, v + i))
        elif isinstance(op, MemoryOperand):
            parts.append(a64_mem_text(op, v + i))
        elif isinstance(op, ImmediateOperand):
            t = op.imd_type
            if t in ("int", "*"):
                parts.append(_pick(["#1", "#0", "12", "#0x10"], v))
            elif t == "double":
                parts.append(_pick(["#1.5", "#2.0e+1", "#0.0"], v))
            elif t == "float":
                # the grammar's float literal carries an 'f' suffix
                parts.append(_pick(["#1.5f", "#2.0e+1f"], v))
            else:
                raise Unsupported("immediate type %r" % t)
        elif isinstance(op, IdentifierOperand):
            parts.append(_pick([".L12", "foo"], v))
        elif isinstance(op, ConditionOperand):
            parts.append("ne" if op.ccode == "*" else op.ccode.lower())
        elif isinstance(op, PrefetchOperand):
            if op.type_id == "*":
                parts.append("pldl1keep")
            else:
                parts.append("%s%s%s" % (op.type_id, op.target, op.policy))
        else:
            raise Unsupported("operand %r" % (op,))
    return (mnemonic.lower() + " " + ", ".join(parts)).strip()


def entry_text(isa, mnemonic, operands, v=0):
    return x86_text(mnemonic, operands, v) if isa == "x86" else a64_text(mnemonic, operands, v)
