"""python -m lib.seqrun <in.json> <out.json>: run a sequence of analyses in ONE process.

in: {"mode": "cli"|"lib", "elements": [{"argv": [...], "code": str}]}
out: {"reports": [normalised report text | {"error": ...}]}
"""
import io
import json
import sys
import traceback

from lib import env

env.setup_process()

from lib import cli, report  # noqa: E402


def lib_style(elements):
    """The way an embedding application (Kerncraft) uses OSACA: one MachineModel/ArchSemantics per
    architecture, reused for every kernel."""
    import osaca.osaca as oo
    from osaca.frontend import Frontend
    from osaca.semantics import ArchSemantics, KernelDG, MachineModel, reduce_to_section

    cache = {}
    out = []
    for el in elements:
        try:
            parser_ = oo.create_parser()
            import os
            import tempfile
            d = tempfile.mkdtemp(prefix="verif-seq-")
            p = os.path.join(d, "kernel.s")
            with open(p, "w") as fh:
                fh.write(el["code"])
            args = parser_.parse_args(list(el["argv"]) + [p])
            oo.check_arguments(args, parser_)
            arch = args.arch
            isa = MachineModel.get_isa_for_arch(arch)
            asm_parser = oo.get_asm_parser(arch)
            parsed = asm_parser.parse_file(args.file.read())
            args.file.close()
            kernel = reduce_to_section(parsed, isa)
            if arch not in cache:
                mm = MachineModel(arch=arch)
                cache[arch] = (mm, ArchSemantics(mm))
            mm, sem = cache[arch]
            sem.add_semantics(kernel)
            if not args.fixed:
                sem.assign_optimal_throughput(kernel)
                sem.assign_optimal_throughput(kernel)
            dg = KernelDG(kernel, asm_parser, mm, sem, args.lcd_timeout, args.consider_flag_deps)
            fe = Frontend(p, arch=arch)
            text = fe.full_analysis(kernel, dg, ignore_unknown=args.ignore_unknown, arch_warning=False,
                                    length_warning=False, lcd_warning=dg.timed_out, verbose=args.verbose)
            out.append(report.normalise(text + "\n"))
            os.remove(p)
            os.rmdir(d)
        except Exception:
            out.append({"error": traceback.format_exc()[-1500:]})
    return out


def main():
    with open(sys.argv[1]) as fh:
        job = json.load(fh)
    reports = []
    if job["mode"] == "lib":
        reports = lib_style(job["elements"])
    else:
        for el in job["elements"]:
            try:
                text, _, _ = cli.run_inprocess(el["argv"], el["code"])
                reports.append(report.normalise(text))
            except Exception:
                reports.append({"error": traceback.format_exc()[-1500:]})
    with open(sys.argv[2], "w") as fh:
        json.dump({"reports": reports}, fh)


if __name__ == "__main__":
    main()
