"""Round-trip oracle shared by C09 (x86 AT&T) and C10 (AArch64): render -> parse -> compare with the AST."""
from lib import asmgen
from lib.core import Stats, Violation, guard, hyp_search


def parser_for(isa):
    from osaca.parser import ParserAArch64, ParserX86ATT

    return ParserX86ATT() if isa == "x86" else ParserAArch64()


def canon_x86(o):
    from osaca.parser.identifier import IdentifierOperand
    from osaca.parser.immediate import ImmediateOperand
    from osaca.parser.memory import MemoryOperand
    from osaca.parser.register import RegisterOperand

    if isinstance(o, RegisterOperand):
        return ["reg", o.name]
    if isinstance(o, ImmediateOperand):
        return ["imm", o.value]
    if isinstance(o, IdentifierOperand):
        return ["id", o.name]
    if isinstance(o, MemoryOperand):
        off = o.offset
        if off is None:
            offv = None
        elif isinstance(off, ImmediateOperand):
            offv = off.value
        elif isinstance(off, IdentifierOperand):
            offv = ["id", off.name]
        else:
            offv = ["?", repr(off)]
        return ["mem", offv, o.base.name if o.base is not None else None,
                o.index.name if o.index is not None else None, o.scale]
    return ["?", repr(o)[:120]]


def _attrs(r):
    a = {}
    if r.shape is not None:
        a["shape"] = r.shape
    if r.lanes is not None:
        a["lanes"] = str(r.lanes)
    if r.index is not None:
        a["index"] = int(r.index)
    if r.predication is not None:
        a["predication"] = r.predication
    return a


def canon_a64(o):
    from osaca.parser.condition import ConditionOperand
    from osaca.parser.identifier import IdentifierOperand
    from osaca.parser.immediate import ImmediateOperand
    from osaca.parser.memory import MemoryOperand
    from osaca.parser.register import RegisterOperand

    if isinstance(o, RegisterOperand):
        return ["reg", o.prefix, str(o.name), _attrs(o)]
    if isinstance(o, ImmediateOperand):
        if o.imd_type in ("float", "double"):
            v = o.value
            if isinstance(v, dict):
                return ["fimm", str(v.get("mantissa")), [v.get("e_sign"), v.get("exponent")]]
            return ["fimm", v, None]
        return ["imm", o.value]
    if isinstance(o, IdentifierOperand):
        return ["id", o.name]
    if isinstance(o, ConditionOperand):
        return ["cc", o.ccode]
    if isinstance(o, MemoryOperand):
        off = o.offset
        offv = None if off is None else (off.value if isinstance(off, ImmediateOperand) else ["?", repr(off)[:80]])
        post = o.post_indexed
        if isinstance(post, dict):
            post = post.get("value", ["?", repr(post)[:80]])
        elif not post:
            post = None
        return ["mem", offv, [o.base.prefix, str(o.base.name)] if o.base is not None else None,
                [o.index.prefix, str(o.index.name)] if o.index is not None else None, o.scale,
                bool(o.pre_indexed), post]
    return ["?", repr(o)[:120]]


def expected_a64(ops):
    """expand lists/ranges; normalise expectation"""
    out = []
    for o in ops:
        if o[0] in ("list", "range"):
            for m in o[1]:
                a = dict(m[3])
                if o[2] is not None:
                    a["index"] = o[2]
                out.append(["reg", m[1], m[2], a])
        else:
            out.append(o)
    return out


def same_operand(isa, exp, got):
    if isa == "aarch64" and exp[0] == "fimm":
        if got[0] != "fimm":
            return False
        if exp[2] is None:
            try:
                return got[2] is None and float(got[1]) == float(exp[1])
            except (TypeError, ValueError):
                return False
        return got[1] == exp[1] and got[2] == list(exp[2])
    return exp == got


def opclass(o):
    k = o[0]
    if k == "mem":
        if len(o) == 5:
            return "mem:" + "".join(c for c, v in zip("dbi", o[1:4]) if v is not None)
        return "mem:" + ("pre" if o[5] else "post" if o[6] is not None else
                         ("idx" + ("*%d" % o[4] if o[4] != 1 else "")) if o[3] else "off" if o[1] is not None else "b")
    if k == "imm":
        return "imm" + ("-" if o[1] < 0 else "")
    return k


def check_line(isa, parser, ln, lineno, rec):
    canon = canon_x86 if isa == "x86" else canon_a64
    text = ln["text"]
    if rec.line != text:
        raise Violation("verbatim:" + isa, "parsed line does not carry its verbatim text", rec.line, text)
    if rec.line_number != lineno:
        raise Violation("lineno:" + isa, "parsed line does not carry its 1-based line number", rec.line_number,
                        lineno)
    kinds = [k for k, v in (("label", rec.label), ("directive", rec.directive), ("instruction", rec.mnemonic))
             if v is not None]
    if not kinds and rec.comment is not None:
        kinds = ["comment"]
    want = {"ins": "instruction"}.get(ln["kind"], ln["kind"])
    if kinds != [want]:
        raise Violation("classify:%s:%s" % (isa, want), "line classified as %s, written as %s: %r" % (
            kinds, want, text), kinds, [want])
    if ln["kind"] == "label" and rec.label != ln["name"]:
        raise Violation("label-name:" + isa, "label name not recovered: %r" % text, rec.label, ln["name"])
    if ln["kind"] == "directive" and rec.directive.name != ln["name"]:
        raise Violation("directive-name:" + isa, "directive name not recovered: %r" % text, rec.directive.name,
                        ln["name"])
    if ln["kind"] != "ins":
        return
    if rec.mnemonic != ln["mnemonic"]:
        raise Violation("mnemonic:" + isa, "mnemonic not recovered: %r" % text, rec.mnemonic, ln["mnemonic"])
    exp = ln["operands"] if isa == "x86" else expected_a64(ln["operands"])
    got = [canon(o) for o in rec.operands]
    if len(got) != len(exp):
        raise Violation("operand-count:%s" % isa, "number of operands differs: %r" % text, got, exp)
    for i, (e, g) in enumerate(zip(exp, got)):
        if not same_operand(isa, e, g):
            ws = ""
            raise Violation("operand:%s:%s->%s" % (isa, opclass(e), g[0]),
                            "operand %d not recovered as written: %r" % (i + 1, text), g, e)


def check_file(case):
    isa = case["isa"]
    parser = parser_for(isa)
    text = "\n".join(l["text"] for l in case["lines"]) + ("\n" if case.get("trailing_newline") else "")
    nonblank = [(i + 1, l) for i, l in enumerate(case["lines"]) if l["kind"] != "blank"]
    try:
        recs = parser.parse_file(text)
    except Exception:
        # locate the offending line for a precise report
        recs = None
    if recs is None:
        for no, l in nonblank:
            guard(parser.parse_line, l["text"], no, what="parse_line(%r)" % l["text"])
        recs = guard(parser.parse_file, text, what="parse_file")
    if len(recs) != len(nonblank):
        raise Violation("record-count:" + isa, "parse_file does not yield one record per non-blank line",
                        len(recs), len(nonblank))
    for rec, (no, l) in zip(recs, nonblank):
        check_line(isa, parser, l, no, rec)
    # layout invariance: the same line parsed alone gives the same operands
    classes = set()
    nt = False
    for no, l in nonblank:
        if l["kind"] == "ins":
            ops = l["operands"]
            for o in ops:
                classes.add(opclass(o))
            if (len(ops) >= 3 or any(o[0] == "mem" and sum(v is not None for v in o[1:4]) >= 2 for o in ops)
                    or any(o[0] == "imm" and (o[1] < 0 or o[1] > 255) for o in ops)
                    or any(o[0] in ("list", "range") for o in ops)):
                nt = True
    blank_before = any(l["kind"] == "blank" for l in case["lines"][:-1])
    cl = sorted(classes) + (["blank-line-before-instruction"] if blank_before else [])
    return {"nontrivial": nt, "classes": cl, "key": [l["text"] for l in case["lines"]],
            "sample": [l["text"] for l in case["lines"]][:6]}


def make_check(ID, isa):
    def plan(tier, seed):
        n = {"quick": 1000, "thorough": 20000}[tier]
        return [{"kind": "files", "seed": seed * 1000 + (900 if isa == "x86" else 1000) + i, "n": n,
                 "max_lines": 6 if i % 2 else 14} for i in range(16)]

    def run_shard(spec):
        stats = Stats()
        strat = asmgen.asm_file(isa, max_lines=spec["max_lines"])
        failures = hyp_search(ID, strat, check_file, stats, seed=spec["seed"], max_examples=spec["n"])
        return {"stats": stats.to_dict(), "failures": failures}

    def replay(case):
        return check_file(case)

    return plan, run_shard, replay
