"""Process environment for all checks.

* puts the repository under test ($VERIF_REPO, default /repo) first on sys.path
* runs OSACA against a private $HOME whose ~/.osaca/data holds symlinks to the repository's
  model files.  OSACA looks into ~/.osaca/data first and writes its pickle caches next to the file
  it found, so caches are built in the private directory, never inside /repo, and - because the
  directory name carries a hash of every osaca/**/*.py file - are rebuilt from the working tree
  whenever the loader code changes (stale pickles from install time would otherwise hide changes
  to the loader).
"""
import hashlib
import os
import shutil
import subprocess
import sys
import time

VERIF = os.path.dirname(os.path.dirname(os.path.abspath(__file__)))
REPO = os.path.abspath(os.environ.get("VERIF_REPO", "/repo"))
PY = "/venv/bin/python"
CACHE_ROOT = os.path.join(VERIF, ".cache")

X86_ARCHS = ["snb", "ivb", "hsw", "icl", "icx", "spr", "zen1", "zen2", "zen3", "zen4"]
A64_ARCHS = ["tx2", "n1", "a64fx", "tsv110", "a72", "m1", "v2"]
ALL_ARCHS = X86_ARCHS + A64_ARCHS
SMALL_X86 = ["zen1", "spr", "zen4", "hsw"]
SMALL_A64 = ["n1", "tx2", "a64fx", "tsv110"]


def isa_of(arch):
    return "x86" if arch in X86_ARCHS else "aarch64"


def code_hash():
    h = hashlib.sha256()
    root = os.path.join(REPO, "osaca")
    for d, dirs, files in sorted(os.walk(root)):
        dirs.sort()
        if "__pycache__" in d:
            continue
        for f in sorted(files):
            if f.endswith(".py"):
                p = os.path.join(d, f)
                h.update(os.path.relpath(p, root).encode())
                with open(p, "rb") as fh:
                    h.update(fh.read())
    h.update(REPO.encode())
    return h.hexdigest()[:16]


def home_dir():
    return os.path.join(CACHE_ROOT, "home-" + code_hash())


def ensure_home():
    """Create the private home (idempotent) and return its path."""
    home = home_dir()
    data = os.path.join(home, ".osaca", "data")
    if not os.path.isdir(os.path.join(data, "isa")):
        os.makedirs(os.path.join(data, "isa"), exist_ok=True)
    src = os.path.join(REPO, "osaca", "data")
    for name in os.listdir(src):
        if name.endswith(".yml"):
            _link(os.path.join(src, name), os.path.join(data, name))
    for name in os.listdir(os.path.join(src, "isa")):
        if name.endswith(".yml"):
            _link(os.path.join(src, "isa", name), os.path.join(data, "isa", name))
    # purge homes of other code versions (disk) - only stale ones, a concurrently running check
    # against another tree (VERIF_REPO) must keep its home
    try:
        os.utime(home)
        now = time.time()
        for d in os.listdir(CACHE_ROOT):
            full = os.path.join(CACHE_ROOT, d)
            if d.startswith("home-") and full != home and now - os.path.getmtime(full) > 6 * 3600:
                shutil.rmtree(full, ignore_errors=True)
    except OSError:
        pass
    return home


def _link(src, dst):
    try:
        if os.path.islink(dst) and os.readlink(dst) == src:
            return
        if os.path.lexists(dst):
            os.remove(dst)
        os.symlink(src, dst)
    except FileExistsError:
        pass


def child_env(extra=None):
    env = dict(os.environ)
    env["HOME"] = ensure_home()
    env["PYTHONHASHSEED"] = env.get("VERIF_HASHSEED", "0")
    env["PYTHONPATH"] = REPO + os.pathsep + VERIF
    env["VERIF_REPO"] = REPO
    env.pop("PYTHONSTARTUP", None)
    if extra:
        env.update(extra)
    return env


def setup_process():
    """Call before importing osaca in a worker process."""
    os.environ["HOME"] = ensure_home()
    if sys.path[0] != REPO:
        sys.path.insert(0, REPO)
    if VERIF not in sys.path:
        sys.path.insert(1, VERIF)


_WARM = r"""
import sys
import time
from osaca.semantics import MachineModel
from osaca import utils
for a in sys.argv[1:]:
    if a.startswith('isa/'):
        MachineModel(path_to_yaml=utils.find_datafile(a + '.yml'))
    else:
        MachineModel(arch=a)
"""


def warm_caches(archs=None):
    """Build the pickle caches of all non-empty shipped models, one process per model file
    (distinct files => no two writers of one cache file)."""
    archs = list(archs) if archs is not None else ALL_ARCHS + ["isa/x86", "isa/aarch64"]
    env = child_env()
    data = os.path.join(env["HOME"], ".osaca", "data")
    todo = []
    for a in archs:
        yml = os.path.join(data, a + ".yml")
        if not os.path.exists(yml) or os.path.getsize(yml) == 0:
            continue
        with open(yml, "rb") as fh:
            hx = hashlib.sha256(fh.read()).hexdigest()
        stem = os.path.basename(a)
        comp = os.path.join(os.path.dirname(yml), "." + stem + "_" + hx + ".pickle")
        if not os.path.exists(comp):
            todo.append(a)
    procs = [
        (a, subprocess.Popen([PY, "-c", _WARM, a], env=env, stdout=subprocess.PIPE,
                             stderr=subprocess.PIPE))
        for a in todo
    ]
    failed = []
    for a, p in procs:
        out, err = p.communicate()
        if p.returncode != 0:
            failed.append((a, err.decode(errors="replace")[-500:]))
    return failed
