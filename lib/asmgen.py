"""G-kernel: instruction ASTs rendered to assembly text with generated layout (x86 AT&T and AArch64).

A generated line is a JSON-able dict: {"kind": ins|blank|comment|label|directive, "text": str, ...expected}
  ins:       "mnemonic": str, "operands": [canonical operand], "comment": bool
canonical operands
  x86:  ["reg", name] ["imm", int] ["id", name] ["mem", disp|None|["id",name], base|None, index|None, scale]
  a64:  ["reg", prefix, name, {shape, lanes, index, predication}] ["imm", int] ["fimm", text] ["id", name]
        ["cc", CODE] ["mem", offset|None, [bprefix, bname], [iprefix, iname]|None, scale, pre, post|None]
        ["list"/"range", [members...], index|None]
"""
from hypothesis import strategies as st

WS = st.sampled_from(["", "", " ", "  ", "\t", " \t"])
WS1 = st.sampled_from([" ", "  ", "\t", " \t"])

G64 = "rax rbx rcx rdx rsi rdi rbp rsp r8 r9 r10 r11 r12 r13 r14 r15".split()
G32 = "eax ebx ecx edx esi edi ebp esp r8d r9d r10d r11d r12d r13d r14d r15d".split()
G16 = "ax bx cx dx si di bp sp r8w r9w r10w r11w r12w r13w r14w r15w".split()
G8 = "al bl cl dl sil dil bpl spl r8b r9b r10b r11b r12b r13b r14b r15b ah bh ch dh".split()
VEC = ["%smm%d" % (c, n) for c in "xyz" for n in range(32)]
X86_MNE = ("mov movq movl addq subl vaddpd vfmadd231pd lea leaq cmpl testq jne jmp vmovapd imul shlq incq "
           "vpinsrq call ret nop vextractf128 movabsq movzbl cvtsi2sd xorl vpxor kmovq prefetcht0").split()
X86_LABELS = [".L1", ".LBB0_3", "foo", "_bar.baz", "..B1.4", "loop2", ".L_x$y", "main"]
COMMENT_WORDS = ["x", "LLVM-MCA-BEGIN", "a=b", "#", "42", "%rax", "foo,bar", "(x)"]


@st.composite
def x86_operand(draw, first):
    kinds = ["reg", "reg", "imm", "mem", "mem", "mem"] + (["id"] if first else [])
    k = draw(st.sampled_from(kinds))
    if k == "reg":
        r = draw(st.sampled_from(draw(st.sampled_from([G64, G32, G16, G8, VEC]))))
        if draw(st.integers(0, 9)) == 0:
            r = r.upper()
        return ["reg", r], "%" + r
    if k == "imm":
        v = draw(st.one_of(
            st.sampled_from([0, 1, -1, 8, 255, -128, 2 ** 31 - 1, -2 ** 31, 2 ** 63 - 1, 2 ** 64 - 1, 111, 222]),
            st.integers(-2 ** 40, 2 ** 40), st.integers(-2 ** 63, 2 ** 64 - 1)))
        return ["imm", v], "$" + draw(num_text(v))
    if k == "id":
        if draw(st.integers(0, 3)) == 0:
            # reference to a numeric local label: the operand is label N, the suffix gives the search direction
            n_ = draw(st.sampled_from(["1", "2", "42", "7"]))
            return ["id", n_], n_ + draw(st.sampled_from(["b", "f"]))
        lab = draw(st.sampled_from(X86_LABELS))
        return ["id", lab], lab
    hb, hi, hd = draw(st.booleans()), draw(st.booleans()), draw(st.booleans())
    if not (hb or hi or hd):
        hb = True
    b = draw(st.sampled_from(G64 + ["rip"] if not hi else G64)) if hb else None
    i = draw(st.sampled_from(G64)) if hi else None
    d = None
    ds = ""
    if hd:
        if (hb or hi) and draw(st.integers(0, 7)) == 0:
            lab = draw(st.sampled_from(["foo", ".LC0", "bar_2"]))
            d, ds = ["id", lab], lab
        else:
            lo = -2 ** 31 if (hb or hi) else 0  # displacement-only operands: non-negative (absolute address)
            d = draw(st.one_of(st.sampled_from([0, 8, 16, 1024, 0x7fffffff] + ([-8, -4096] if lo else [])),
                               st.integers(lo, 2 ** 31 - 1)))
            ds = draw(num_text(d))
    if not hb and not hi:
        return ["mem", d, None, None, 1], ds
    sc = draw(st.sampled_from([None, 1, 2, 4, 8])) if hi else None
    inner = draw(WS) + ("%" + b if b else "")
    if i:
        inner += draw(WS) + "," + draw(WS) + "%" + i
        if sc is not None:
            inner += draw(WS) + "," + draw(WS) + str(sc)
    inner += draw(WS)
    return ["mem", d, b, i, sc or 1], ds + "(" + inner + ")"


@st.composite
def num_text(draw, v):
    if draw(st.booleans()):
        return str(v)
    digits = "%x" % abs(v)
    if draw(st.integers(0, 3)) == 0:
        digits = digits.upper()
    return ("-" if v < 0 else "") + "0x" + digits


@st.composite
def comment_text(draw, isa):
    start = draw(st.sampled_from(["#", "//"] if isa == "x86" else ["//", "//", "#" if False else "//"]))
    words = draw(st.lists(st.sampled_from(COMMENT_WORDS), min_size=0, max_size=4))
    return start + draw(WS) + " ".join(words)


@st.composite
def x86_instruction(draw):
    m = draw(st.sampled_from(X86_MNE))
    n = draw(st.integers(0, 4))
    ops = [draw(x86_operand(j == 0)) for j in range(n)]
    text = draw(WS) + m
    if n:
        text += draw(WS1) + (draw(WS) + "," + draw(WS)).join(t for _, t in ops)
    text += draw(WS)
    has_c = draw(st.integers(0, 3)) == 0
    if has_c:
        text += draw(WS) + draw(comment_text("x86"))
    return {"kind": "ins", "text": text, "mnemonic": m, "operands": [a for a, _ in ops], "comment": has_c}


@st.composite
def other_line(draw, isa):
    k = draw(st.sampled_from(["blank", "comment", "label", "directive"]))
    if k == "blank":
        return {"kind": "blank", "text": draw(st.sampled_from(["", "", " ", "\t", "   "]))}
    if k == "comment":
        return {"kind": "comment", "text": draw(WS) + draw(comment_text(isa))}
    if k == "label":
        names = [".L1", ".LBB0_3", "foo", "main", "..B1.4", "_a.b", "loop_2"]
        if isa == "x86":
            names += ["1", "42"]  # numeric local labels: part of the AT&T grammar only
        name = draw(st.sampled_from(names))
        text = draw(WS) + name + ":" + draw(WS)
        c = draw(st.integers(0, 3)) == 0
        if c:
            text += draw(WS) + draw(comment_text(isa))
        return {"kind": "label", "text": text, "name": name}
    d = draw(st.sampled_from([
        ("align", ["16"]), ("byte", ["100", "103", "144"]), ("text", []), ("p2align", ["4", "", "15"]),
        ("globl", ["main"]), ("type", ["main", "@function"] if isa == "x86" else ["main", "%function"]),
        ("file", ['"a b.c"']), ("long", ["0x10"]), ("size", ["main", ".-main"]),
        ("section", [".text", '"ax"']),
        # debug / unwind directives as compilers emit them: parameters separated by blanks
        ("loc", ["1", "23", "0"], " "), ("loc", ["1", "5", "3", "is_stmt", "0"], " "), ("file", ["1", '"x.c"'], " "),
        ("ident", ['"GCC: (GNU) 9.1"']), ("cfi_startproc", []), ("cfi_def_cfa_offset", ["16"]),
        ("cfi_offset", ["29", "-16"])]))
    sep = draw(st.sampled_from([",", ", ", " ,"])) if len(d) == 2 else draw(st.sampled_from([" ", "  ", "\t"]))
    text = draw(WS) + "." + d[0] + (draw(WS1) + sep.join(d[1]) if d[1] else "") + draw(WS)
    c = draw(st.integers(0, 4)) == 0
    if c:
        text += " " + draw(comment_text(isa))
    return {"kind": "directive", "text": text, "name": d[0]}


@st.composite
def asm_file(draw, isa, max_lines=12):
    ins = x86_instruction() if isa == "x86" else a64_instruction()
    n = draw(st.integers(1, max_lines))
    lines = []
    for _ in range(n):
        if draw(st.integers(0, 2)) == 0:
            lines.append(draw(other_line(isa)))
        else:
            lines.append(draw(ins))
    return {"isa": isa, "lines": lines, "trailing_newline": draw(st.booleans())}


# ------------------------------------------------------------------------------------------- AArch64
A64_MNE = ("add sub mov ldr str ldp stp fmla fadd fmul madd csel b.ne cmp subs lsl adds ld1d st1d fmov ldur "
           "prfm cbz ld1 dup mul eor and orr").split()
CCODES = "eq ne cs hs cc lo mi pl vs vc hi ls ge lt gt le al".split()


@st.composite
def a64_register(draw):
    """(canonical, text)"""
    k = draw(st.sampled_from(["x", "w", "x", "w", "d", "s", "q", "h", "b", "v", "v", "z", "p", "sp", "zr"]))
    n = str(draw(st.integers(0, 31)))
    up = draw(st.integers(0, 11)) == 0
    if k in "xwdsqhb":
        t = k + n
        return ["reg", k, n, {}], (t.upper() if up else t)
    if k == "sp":
        return ["reg", "x", "sp", {}], "sp"
    if k == "zr":
        w = draw(st.sampled_from(["x", "w"]))
        return ["reg", w, "zr", {}], w + "zr"
    if k == "v":
        form = draw(st.integers(0, 3))
        if form == 0:
            return ["reg", "v", n, {}], "v" + n
        sh, lanes = draw(st.sampled_from([("b", "16"), ("b", "8"), ("h", "8"), ("h", "4"), ("s", "4"), ("s", "2"),
                                          ("d", "2"), ("d", "1")]))
        if form in (1, 2):
            return ["reg", "v", n, {"shape": sh, "lanes": lanes}], "v%s.%s%s" % (n, lanes, sh)
        idx = draw(st.integers(0, 3))
        return ["reg", "v", n, {"shape": sh, "index": idx}], "v%s.%s[%d]" % (n, sh, idx)
    if k == "z":
        sh = draw(st.sampled_from(["b", "h", "s", "d"]))
        return ["reg", "z", n, {"shape": sh}], "z%s.%s" % (n, sh)
    pn = str(draw(st.integers(0, 15)))
    pred = draw(st.sampled_from([None, "m", "z"]))
    if pred:
        return ["reg", "p", pn, {"predication": pred}], "p%s/%s" % (pn, pred)
    sh = draw(st.sampled_from([None, "b", "d", "s"]))
    if sh:
        return ["reg", "p", pn, {"shape": sh}], "p%s.%s" % (pn, sh)
    return ["reg", "p", pn, {}], "p" + pn


@st.composite
def a64_immediate(draw):
    k = draw(st.integers(0, 9))
    hash_ = draw(st.sampled_from(["#", "#", ""]))
    if k < 7:
        v = draw(st.one_of(st.sampled_from([0, 1, 8, 16, 255, 4095, 65535, 111, 222, -1, -16, -256]),
                           st.integers(-2 ** 31, 2 ** 32)))
        if draw(st.booleans()):
            return ["imm", v], hash_ + str(v)
        return ["imm", v], hash_ + ("-" if v < 0 else "") + "0x%x" % abs(v)
    mant = draw(st.sampled_from(["1.5", "0.0", "2.0", "0.25", "31.0", "1.0", "-1.5", "-0.25", "-2.0", "-31.0"]))
    if draw(st.booleans()):
        return ["fimm", mant, None], "#" + mant
    es, ex = draw(st.sampled_from(["+", "-"])), draw(st.sampled_from(["0", "1", "00", "01"]))
    return ["fimm", mant, [es, ex]], "#%se%s%s" % (mant, es, ex)


@st.composite
def a64_memory(draw):
    bk = draw(st.sampled_from(["x", "x", "x", "sp"]))
    bn = "sp" if bk == "sp" else str(draw(st.integers(0, 30)))
    btext = "sp" if bk == "sp" else "x" + bn
    base = ["x", bn]
    mode = draw(st.sampled_from(["b", "bo", "bo", "bi", "bis", "bie", "pre", "post"]))
    w = draw(WS)
    if mode == "b":
        return ["mem", None, base, None, 1, False, None], "[%s%s%s]" % (w, btext, draw(WS))
    if mode in ("bo", "pre"):
        off = draw(st.one_of(st.sampled_from([0, 8, 16, -16, 255, 4088, -256]), st.integers(-4096, 32760)))
        hexo = draw(st.integers(0, 3)) == 0
        otext = draw(st.sampled_from(["#", "#", ""])) + (("-" if off < 0 else "") + "0x%x" % abs(off) if hexo else str(off))
        t = "[%s%s%s,%s%s%s]" % (w, btext, draw(WS), draw(WS), otext, draw(WS))
        if mode == "pre":
            return ["mem", off, base, None, 1, True, None], t + "!"
        return ["mem", off, base, None, 1, False, None], t
    if mode == "post":
        off = draw(st.sampled_from([8, 16, 32, -16, 64, 1]))
        hexo = draw(st.integers(0, 3)) == 0
        t = "[%s%s%s]%s,%s#%s" % (w, btext, draw(WS), draw(WS), draw(WS),
                                  (("-" if off < 0 else "") + "0x%x" % abs(off) if hexo else str(off)))
        return ["mem", None, base, None, 1, False, off], t
    ik = draw(st.sampled_from(["x", "x", "w"])) if mode != "bi" else "x"
    inn = str(draw(st.integers(0, 30)))
    t = "[%s%s%s,%s%s%s" % (w, btext, draw(WS), draw(WS), ik + inn, draw(WS))
    scale = 1
    if mode == "bis":
        sh = draw(st.integers(0, 4))
        op = "lsl" if ik == "x" else draw(st.sampled_from(["sxtw", "uxtw"]))
        t += ",%s%s%s#%d%s" % (draw(WS), op, draw(WS1), sh, draw(WS))
        scale = 2 ** sh
    elif mode == "bie":
        if ik == "w":
            t += ",%s%s%s" % (draw(WS), draw(st.sampled_from(["sxtw", "uxtw"])), draw(WS))
        else:
            t += ""
    return ["mem", None, base, [ik, inn], scale, False, None], t + "]"


@st.composite
def a64_reglist(draw):
    kind = draw(st.sampled_from(["list", "list", "range"]))
    start = draw(st.integers(0, 27))
    cnt = draw(st.integers(1, 4))
    pfx = draw(st.sampled_from(["v", "v", "z"]))
    if pfx == "v":
        sh, lanes = draw(st.sampled_from([("b", "16"), ("s", "4"), ("d", "2"), ("h", "8")]))
        suffix = ".%s%s" % (lanes, sh)
        attrs = {"shape": sh, "lanes": lanes}
    else:
        sh = draw(st.sampled_from(["d", "s"]))
        suffix = "." + sh
        attrs = {"shape": sh}
    members = [["reg", pfx, str(start + i), dict(attrs)] for i in range(cnt)]
    if kind == "range" and cnt >= 2:
        t = "{%s%s%d%s%s-%s%s%d%s%s}" % (draw(WS), pfx, start, suffix, draw(WS), draw(WS), pfx, start + cnt - 1,
                                          suffix, draw(WS))
        k = "range"
    else:
        t = "{" + ",".join("%s%s%d%s%s" % (draw(WS), pfx, start + i, suffix, draw(WS)) for i in range(cnt)) + "}"
        k = "list"
    idx = None
    if pfx == "v" and draw(st.integers(0, 3)) == 0:
        idx = draw(st.integers(0, 3))
        t += "[%d]" % idx
    return [k, members, idx], t


@st.composite
def a64_instruction(draw):
    m = draw(st.sampled_from(A64_MNE))
    shape = draw(st.integers(0, 11))
    ops = []
    if shape == 0:
        pass
    elif shape == 1:
        # label names that begin with a shift/extend keyword or a condition code are labels all the same
        lab = draw(st.sampled_from([".L1", ".LBB0_3", "foo", "loop2", ".L_end", "lsl_done", "ror.L4", "asr1", "sxtw_l",
                                    "uxtb2", "lsr_x", "le_loop", "ne.L4", "HI_table", "eq2", "mul_vl", "ge_", "mi.x"]))
        if draw(st.booleans()):
            ops.append(draw(a64_register()))
            if draw(st.integers(0, 3)) == 0:
                ops.append(draw(a64_immediate()))  # tbz/tbnz: register, bit number, label
        ops.append((["id", lab], lab))
    else:
        nreg = draw(st.integers(1, 3))
        if draw(st.integers(0, 5)) == 0:
            ops.append(draw(a64_reglist()))
            nreg = draw(st.integers(0, 1))
        for _ in range(nreg):
            ops.append(draw(a64_register()))
        tail = draw(st.sampled_from(["none", "imm", "imm", "mem", "mem", "mem", "cc", "reg"]))
        if tail == "imm":
            ops.append(draw(a64_immediate()))
        elif tail == "mem":
            ops.append(draw(a64_memory()))
        elif tail == "cc":
            cc = draw(st.sampled_from(CCODES))
            ops.append((["cc", cc.upper()], cc.upper() if draw(st.integers(0, 5)) == 0 else cc))
        elif tail == "reg":
            ops.append(draw(a64_register()))
    ops = ops[:5]
    text = draw(WS) + m
    if ops:
        text += draw(WS1) + (draw(WS) + "," + draw(WS)).join(t for _, t in ops)
    text += draw(WS)
    has_c = draw(st.integers(0, 3)) == 0
    if has_c:
        text += draw(WS) + draw(comment_text("aarch64"))
    return {"kind": "ins", "text": text, "mnemonic": m, "operands": [a for a, _ in ops], "comment": has_c}
