"""G-corpus: the marked kernels of examples/*/* and tests/test_files (committed files only)."""
import glob
import os
import subprocess

from lib import env


def _tracked(paths):
    try:
        out = subprocess.run(["git", "-C", env.REPO, "ls-files", "examples", "tests/test_files"],
                             capture_output=True, text=True).stdout.split()
        tracked = set(os.path.join(env.REPO, p) for p in out)
        if tracked:
            return [p for p in paths if p in tracked]
    except Exception:
        pass
    return paths


def files():
    """[(path, isa)] sorted; long-LCD kernel excluded (exponential search, C19's domain)"""
    out = []
    cands = sorted(glob.glob(os.path.join(env.REPO, "examples", "*", "*.s")))
    cands += sorted(glob.glob(os.path.join(env.REPO, "tests", "test_files", "*.s")))
    for p in _tracked(cands):
        b = os.path.basename(p)
        if b.endswith(".copy.s") or "long_LCD" in b:
            continue
        isa = "aarch64" if (".tx2." in b or "aarch64" in b or "_arm_" in b) else "x86"
        out.append((p, isa))
    return out


def kernels():
    """[(name, isa, [lines])] the marked section of every corpus file (whole file if unmarked)"""
    env.setup_process()
    from osaca.parser import ParserAArch64, ParserX86ATT
    from osaca.semantics import reduce_to_section

    res = []
    for p, isa in files():
        with open(p) as fh:
            code = fh.read()
        parser = ParserX86ATT() if isa == "x86" else ParserAArch64()
        try:
            parsed = parser.parse_file(code)
            kern = reduce_to_section(parsed, isa)
        except Exception:
            continue
        lines = [k.line for k in kern]
        if 0 < len(lines) <= 120:
            res.append((os.path.relpath(p, env.REPO), isa, lines))
    return res
