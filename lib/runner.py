"""Runner: `check <ID> [--tier quick|thorough] [--replay FILE]`.

A check module (checks/cNN.py) provides
  ID, LEVEL, RULE, ASSUMPTIONS
  plan(tier, seed)      -> list of shard specs (JSON-able dicts), each run in its own process
  run_shard(spec)       -> dict(stats=Stats.to_dict(), failures=[failure records], extra={...})
  replay(case)          -> None, or raises core.Violation
  MIN_NONTRIVIAL        -> {tier: floor}
  optional: WARM (list of archs or None=all), MAX_PARALLEL, known_class(case)
"""
import argparse
import importlib
import json
import os
import shutil
import signal
import subprocess
import sys
import tempfile
import time
from collections import Counter
from concurrent.futures import ThreadPoolExecutor

from lib import env
from lib.core import Violation, case_hash, jsonable

KNOWN = os.path.join(env.VERIF, "known_findings.json")


def load_known(prop):
    try:
        with open(KNOWN) as fh:
            data = json.load(fh)
    except FileNotFoundError:
        return []
    return [f for f in data.get("findings", []) if f["property"] == prop]


def _run_shard_subprocess(prop, spec, idx, outdir, timeout):
    out = os.path.join(outdir, "shard%03d.json" % idx)
    specf = os.path.join(outdir, "spec%03d.json" % idx)
    with open(specf, "w") as fh:
        json.dump(spec, fh)
    cmd = [env.PY, "-m", "lib.shard", prop, specf, out]
    t0 = time.time()
    # every shard gets its own scratch directory (TMPDIR) and its own process group: both are removed
    # when the shard ends, however it ends (workers of a timed-out LCD search included)
    tmpd = os.path.join(outdir, "tmp%03d" % idx)
    os.makedirs(tmpd, exist_ok=True)
    p = subprocess.Popen(cmd, env=env.child_env({"TMPDIR": tmpd}), cwd=env.VERIF, stdout=subprocess.PIPE,
                         stderr=subprocess.PIPE, start_new_session=True)
    try:
        so, se = p.communicate(timeout=timeout)
        rc, so, se = p.returncode, so.decode(errors="replace"), se.decode(errors="replace")
    except subprocess.TimeoutExpired:
        rc, so, se = -9, "", "shard timeout after %ss" % timeout
    finally:
        try:
            os.killpg(p.pid, signal.SIGKILL)
        except (ProcessLookupError, PermissionError):
            pass
        try:
            p.communicate(timeout=10)
        except Exception:
            pass
        shutil.rmtree(tmpd, ignore_errors=True)
    res = None
    if os.path.exists(out):
        try:
            with open(out) as fh:
                res = json.load(fh)
        except Exception:
            res = None
    return {"idx": idx, "rc": rc, "stdout": so[-2000:], "stderr": se[-4000:], "result": res,
            "wall": time.time() - t0}


def main(argv=None):
    ap = argparse.ArgumentParser()
    ap.add_argument("prop")
    ap.add_argument("--tier", default=os.environ.get("VERIF_TIER", "quick"),
                    choices=["quick", "thorough"])
    ap.add_argument("--replay")
    ap.add_argument("--seed", type=int, default=None)
    ap.add_argument("--jobs", type=int, default=int(os.environ.get("VERIF_JOBS", "16")))
    args = ap.parse_args(argv)
    prop = args.prop.upper()
    seed = args.seed if args.seed is not None else int(os.environ.get("VERIF_SEED", "1") or 1)
    t0 = time.time()
    env.setup_process()
    try:
        import hypothesis  # noqa
    except ImportError:
        subprocess.run([env.PY, "-m", "pip", "install", "--no-index", "--find-links",
                        "/opt/veriftools/wheels", "hypothesis"], capture_output=True)
    try:
        mod = importlib.import_module("checks." + prop.lower())
    except Exception as e:  # noqa
        print("HARNESS-ERROR: cannot import check %s: %r" % (prop, e))
        return 2

    warm = getattr(mod, "WARM", None)
    if warm is None or warm:
        failed = env.warm_caches(warm)
        for a, err in failed:
            print("NOTE: model %s could not be loaded during warm-up: %s" % (a, err.splitlines()[-1:] ))

    if args.replay:
        return do_replay(mod, prop, args.replay)

    known = load_known(prop)
    known_lines = []
    # 1. pinned replays (regressions + known-finding reproducers)
    pinned_fail = []
    rdir = os.path.join(env.VERIF, "replays", prop)
    pinned = sorted(os.listdir(rdir)) if os.path.isdir(rdir) else []
    known_repro = {os.path.basename(f["reproducer"]): f for f in known if f.get("reproducer")}
    n_pinned = 0
    if pinned:
        spec = {"kind": "__replays__", "files": [os.path.join(rdir, f) for f in pinned
                                                  if f.endswith(".json")]}
        with tempfile.TemporaryDirectory(prefix="verif-%s-" % prop) as td:
            r = _run_shard_subprocess(prop, spec, 0, td, 1800)
        if r["result"] is None:
            print("HARNESS-ERROR: replay tier failed rc=%s\n%s" % (r["rc"], r["stderr"]))
            return 2
        n_pinned = len(spec["files"])
        for fr in r["result"]["failures"]:
            base = os.path.basename(fr["file"])
            if base in known_repro:
                f = known_repro[base]
                known_lines.append("KNOWN-FINDING: property=%s %s [%s]" % (prop, f["what"], f["id"]))
            else:
                pinned_fail.append(fr)

    # 2. search
    shards = mod.plan(args.tier, seed)
    maxpar = min(args.jobs, getattr(mod, "MAX_PARALLEL", 16))
    shard_timeout = getattr(mod, "SHARD_TIMEOUT", {"quick": 900, "thorough": 7200})[args.tier]
    results = []
    with tempfile.TemporaryDirectory(prefix="verif-%s-" % prop) as td:
        with ThreadPoolExecutor(max_workers=maxpar) as ex:
            futs = [ex.submit(_run_shard_subprocess, prop, s, i, td, shard_timeout)
                    for i, s in enumerate(shards)]
            results = [f.result() for f in futs]

    harness_errors = [r for r in results if r["result"] is None or r["rc"] not in (0,)]
    evaluations = 0
    nontrivial = set()
    classes = Counter()
    excluded = Counter()
    samples = []
    failures = []
    extra = {}
    exhaustive = True if shards else False
    inconclusive = []
    for r in results:
        res = r["result"]
        if res is None:
            continue
        st = res["stats"]
        evaluations += st["evaluations"]
        nontrivial.update(st["nontrivial"])
        classes.update(st["classes"])
        excluded.update(st["excluded"])
        for s in st["samples"]:
            if len(samples) < 8:
                samples.append(s)
        failures.extend(res.get("failures", []))
        if not res.get("exhaustive"):
            exhaustive = False
        if res.get("inconclusive"):
            inconclusive.append(res["inconclusive"])
        for k, v in (res.get("extra") or {}).items():
            if isinstance(v, (int, float)) and not isinstance(v, bool):
                extra[k] = extra.get(k, 0) + v
            else:
                extra.setdefault(k, v)

    # de-duplicate failures per bucket (keep the smallest case)
    by_bucket = {}
    for f in failures:
        b = f["bucket"]
        if b not in by_bucket or len(json.dumps(f["case"])) < len(json.dumps(by_bucket[b]["case"])):
            by_bucket[b] = f
    new_violations = []
    for b, f in sorted(by_bucket.items()):
        if f.get("known"):
            # generator met a case of a listed finding's class that the weaker oracle rejected
            kf = [k for k in known if k["id"] == f["known"]]
            if kf:
                line = "KNOWN-FINDING: property=%s %s [%s]" % (prop, kf[0]["what"], kf[0]["id"])
                if line not in known_lines:
                    known_lines.append(line)
                continue
        new_violations.append(f)
    for fr in pinned_fail:
        new_violations.append(fr)

    out_lines = []
    fdir = os.environ.get("VERIF_FOUND_DIR") or os.path.join(env.VERIF, "replays", "found")
    for f in new_violations:
        if "file" in f:
            path = f["file"]
        else:
            os.makedirs(fdir, exist_ok=True)
            path = os.path.join(fdir, "%s-%s.json" % (prop, case_hash([f["bucket"], f["case"]])))
            with open(path, "w") as fh:
                json.dump(f, fh, indent=1, sort_keys=True)
        out_lines.append("VIOLATION property=%s replay=%s" % (prop, path))
        print("  clause: %s\n  bucket: %s\n  observed: %s\n  expected: %s" % (
            f.get("clause"), f.get("bucket"), json.dumps(f.get("observed"))[:600],
            json.dumps(f.get("expected"))[:600]))

    wall = time.time() - t0
    floor = getattr(mod, "MIN_NONTRIVIAL", {}).get(args.tier, 2)
    cov = {
        "evaluations": evaluations,
        "distinct_nontrivial": len(nontrivial),
        "rule": mod.RULE,
        "samples": samples,
        "exhaustive": bool(exhaustive and getattr(mod, "EXHAUSTIVE", False)),
        "classes": dict(sorted(classes.items())),
        "excluded_by_known_finding": dict(sorted(excluded.items())),
        "pinned_replays": n_pinned,
        "shards": len(shards),
        "known_findings_reported": known_lines,
        "inconclusive": inconclusive,
    }
    cov.update(extra)
    ev = {
        "property_id": prop,
        "tier": args.tier,
        "seed": seed,
        "level": mod.LEVEL,
        "coverage": cov,
        "assumptions": list(getattr(mod, "ASSUMPTIONS", [])),
        "wall_s": round(wall, 2),
        "violations": len(new_violations),
    }
    evdir = os.environ.get("VERIF_EVIDENCE_DIR") or os.path.join(env.VERIF, "evidence")
    os.makedirs(evdir, exist_ok=True)
    with open(os.path.join(evdir, prop + ".json"), "w") as fh:
        json.dump(ev, fh, indent=1, sort_keys=True)

    for line in known_lines:
        print(line)
    print("%s tier=%s seed=%d evaluations=%d distinct_nontrivial=%d shards=%d wall=%.1fs (slowest shard %.1fs)" % (
        prop, args.tier, seed, evaluations, len(nontrivial), len(shards), wall,
        max([r["wall"] for r in results] or [0])))
    if harness_errors:
        for r in harness_errors[:3]:
            print("HARNESS-ERROR shard %d rc=%s\n%s" % (r["idx"], r["rc"], r["stderr"][-3000:]))
        for line in out_lines:
            print(line)
        return 1 if out_lines else 2
    if out_lines:
        for line in out_lines:
            print(line)
        return 1
    if len(nontrivial) < floor:
        print("HARNESS-ERROR: generator degenerate: %d distinct non-trivial cases < floor %d" % (
            len(nontrivial), floor))
        return 2
    return 0


def do_replay(mod, prop, path):
    with open(path) as fh:
        rec = json.load(fh)
    case = rec["case"] if isinstance(rec, dict) and "case" in rec else rec
    # scratch files of the replay go into a directory of its own that is removed afterwards
    scratch = tempfile.mkdtemp(prefix="verif-replay-")
    os.environ["TMPDIR"] = scratch
    tempfile.tempdir = scratch
    import atexit
    atexit.register(shutil.rmtree, scratch, True)
    try:
        mod.replay(case)
    except Violation as v:
        print("  clause: %s\n  observed: %s\n  expected: %s" % (
            v.clause, json.dumps(jsonable(v.observed))[:800], json.dumps(jsonable(v.expected))[:800]))
        print("VIOLATION property=%s replay=%s" % (prop, path))
        return 1
    print("replay passed: %s" % path)
    return 0


if __name__ == "__main__":
    sys.exit(main())
