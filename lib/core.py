"""Core types shared by checks: Violation, Stats, Hypothesis driver, crash classification."""
import hashlib
import json
import os
import sys
import time
import traceback
from collections import Counter

from lib import env


class Violation(Exception):
    """A generated case contradicts the property.

    bucket  : short root-cause key (oracle clause + input class), used to look past one defect
    clause  : which clause of the property failed
    """

    def __init__(self, bucket, clause, observed=None, expected=None, detail=None):
        super().__init__("%s: %s" % (bucket, clause))
        self.bucket = bucket
        self.clause = clause
        self.observed = observed
        self.expected = expected
        self.detail = detail


class HarnessError(Exception):
    pass


def jsonable(x):
    if isinstance(x, dict):
        return {str(k): jsonable(v) for k, v in x.items()}
    if isinstance(x, (list, tuple)):
        return [jsonable(v) for v in x]
    if isinstance(x, (set, frozenset)):
        return sorted((jsonable(v) for v in x), key=repr)
    if isinstance(x, (str, int, float, bool)) or x is None:
        return x
    return repr(x)


def case_hash(case):
    return hashlib.sha256(json.dumps(jsonable(case), sort_keys=True).encode()).hexdigest()[:16]


def crash_site(exc):
    """(is_in_osaca, 'file:line:function') of the innermost frame that belongs to the repository
    under test or to the harness (site-packages / stdlib frames below it are skipped)."""
    tb = traceback.extract_tb(exc.__traceback__)
    repo_osaca = os.path.join(env.REPO, "osaca") + os.sep
    for fr in reversed(tb):
        fn = os.path.abspath(fr.filename)
        if fn.startswith(repo_osaca):
            return True, "%s:%s" % (os.path.relpath(fn, env.REPO), fr.name)
        if fn.startswith(env.VERIF + os.sep):
            return False, "%s:%d:%s" % (os.path.relpath(fn, env.VERIF), fr.lineno, fr.name)
    return False, "?"


def guard(fn, *a, what="analysis", **kw):
    """Call OSACA code; an exception raised inside the osaca package for a valid input is a
    violation ('handled, never crashes'), anything else is a harness error."""
    try:
        return fn(*a, **kw)
    except Violation:
        raise
    except Exception as e:  # noqa
        inside, site = crash_site(e)
        if inside:
            raise Violation(
                "crash:%s@%s" % (type(e).__name__, site),
                "%s raised %s" % (what, type(e).__name__),
                observed="".join(traceback.format_exception_only(type(e), e)).strip()[:400],
                detail="".join(traceback.format_tb(e.__traceback__)[-4:])[-1500:],
            )
        raise


class Stats:
    def __init__(self):
        self.evaluations = 0
        self.nontrivial = set()
        self.classes = Counter()
        self.samples = []
        self.excluded = Counter()
        self.max_samples = 6

    def record(self, case, info, sample=None):
        """info: dict(nontrivial=bool, classes=[str], key=optional canonical object)"""
        self.evaluations += 1
        info = info or {}
        for c in info.get("classes", ()):
            self.classes[c] += 1
        if info.get("nontrivial"):
            h = case_hash(info.get("key", case))
            if h not in self.nontrivial:
                self.nontrivial.add(h)
                if len(self.samples) < self.max_samples:
                    self.samples.append(jsonable(sample if sample is not None else
                                                 info.get("sample", case)))
        for k, v in (info.get("excluded") or {}).items():
            self.excluded[k] += v
        # sub-evaluations of one generated case (e.g. every rotation offset of a kernel)
        for subkey, nt in info.get("sub", ()):
            self.evaluations += 1
            if nt:
                self.nontrivial.add(case_hash(subkey))
        if any(nt for _, nt in info.get("sub", ())) and len(self.samples) < self.max_samples:
            self.samples.append(jsonable(sample if sample is not None else info.get("sample", case)))

    def to_dict(self):
        return {
            "evaluations": self.evaluations,
            "nontrivial": sorted(self.nontrivial),
            "classes": dict(self.classes),
            "samples": self.samples,
            "excluded": dict(self.excluded),
        }


def failure_record(prop, case, v, known=None):
    return {
        "property": prop,
        "bucket": v.bucket,
        "clause": v.clause,
        "case": jsonable(case),
        "observed": jsonable(v.observed),
        "expected": jsonable(v.expected),
        "detail": v.detail,
        "known": known,
    }


def hyp_search(prop, strategy, check_case, stats, *, seed, max_examples, shrink=True,
               rounds=3, known_bucket=None, max_shrink_s=120):
    """Drive check_case(case)->info over `strategy`.  Returns a list of failure records
    (at most one per root-cause bucket, at most `rounds`)."""
    import hypothesis
    from hypothesis import HealthCheck, Phase, given, settings

    phases = [Phase.explicit, Phase.generate, Phase.target]
    if shrink:
        phases.append(Phase.shrink)
    failures = []
    excluded = set()
    for rnd in range(rounds):
        last = {}
        t_first_fail = [None]

        def body(case):
            try:
                info = check_case(case)
            except Violation as v:
                if v.bucket in excluded:
                    stats.excluded["bucket:" + v.bucket] += 1
                    stats.evaluations += 1
                    return
                if t_first_fail[0] is None:
                    t_first_fail[0] = time.time()
                last["v"] = (case, v)
                raise
            if t_first_fail[0] is not None and time.time() - t_first_fail[0] > max_shrink_s:
                # shrinking budget exhausted: make remaining shrink attempts cheap no-ops
                return
            stats.record(case, info)

        test = given(strategy)(body)
        test = settings(
            max_examples=max_examples,
            database=None,
            deadline=None,
            derandomize=False,
            report_multiple_bugs=False,
            phases=phases,
            suppress_health_check=list(HealthCheck),
            print_blob=False,
        )(test)
        test = hypothesis.seed(seed * 7 + rnd)(test)
        try:
            test()
        except Violation:
            pass
        except BaseException as e:  # noqa
            # Hypothesis wraps non-reproducing failures (Flaky*) - keep the recorded failure,
            # a failure that does not reproduce from its input is still reported with that note
            if "Flaky" in type(e).__name__ and "v" in last:
                last["v"][1].detail = (last["v"][1].detail or "") + "\n[flaky under replay: %s]" % e
            else:
                raise
        else:
            break
        case, v = last["v"]
        known = known_bucket(v, case) if known_bucket else None
        failures.append(failure_record(prop, case, v, known))
        excluded.add(v.bucket)
    return failures
