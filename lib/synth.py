"""Synthetic machine models / ISA databases written as YAML and loaded through OSACA's real loader."""
import json
import os
import shutil
import tempfile


def yaml_flow(o):
    """Minimal YAML emitter (flow style). int dict keys stay ints (needed for alternative
    port assignments `{0: [...], 1: [...]}`), None -> ~."""
    if o is None:
        return "~"
    if o is True:
        return "true"
    if o is False:
        return "false"
    if isinstance(o, (int, float)):
        return repr(o)
    if isinstance(o, str):
        return json.dumps(o)
    if isinstance(o, (list, tuple)):
        return "[" + ", ".join(yaml_flow(x) for x in o) + "]"
    if isinstance(o, dict):
        items = []
        for k, v in o.items():
            ks = repr(k) if isinstance(k, int) and not isinstance(k, bool) else json.dumps(str(k))
            items.append("%s: %s" % (ks, yaml_flow(v)))
        return "{" + ", ".join(items) + "}"
    raise TypeError(type(o))


def yaml_doc(top):
    """Top-level mapping in block style (one key per line, lists of forms one item per line),
    values in flow style."""
    out = []
    for k, v in top.items():
        if isinstance(v, list) and v and k in ("instruction_forms", "load_throughput", "store_throughput"):
            out.append("%s:" % k)
            for item in v:
                out.append("- " + yaml_flow(item))
        else:
            out.append("%s: %s" % (k, yaml_flow(v)))
    return "\n".join(out) + "\n"


X86_LOAD_LAT = {"gpr": 4.0, "mm": 4.0, "xmm": 4.0, "ymm": 4.0, "zmm": 4.0}
A64_LOAD_LAT = {"w": 4.0, "x": 4.0, "b": 4.0, "h": 4.0, "s": 4.0, "d": 4.0, "q": 4.0, "v": 4.0,
                "z": 4.0}


def arch_model(isa, ports, forms, **kw):
    top = {
        "osaca_version": "0.3.4",
        "micro_architecture": "Synthetic",
        "arch_code": "SYN",
        "isa": isa,
        "hidden_loads": False,
        "load_latency": kw.pop("load_latency", dict(X86_LOAD_LAT if isa == "x86" else A64_LOAD_LAT)),
        "load_throughput": kw.pop("load_throughput", []),
        "load_throughput_default": kw.pop("load_throughput_default", []),
        "store_throughput": kw.pop("store_throughput", []),
        "store_throughput_default": kw.pop("store_throughput_default", []),
        "ports": list(ports),
    }
    stlf = kw.pop("store_to_load_forward_latency", 0.0)
    if stlf is not None:
        top["store_to_load_forward_latency"] = stlf
    for k in ("p_index_latency", "load_throughput_multiplier", "store_throughput_multiplier"):
        if k in kw and kw[k] is not None:
            top[k] = kw.pop(k)
        else:
            kw.pop(k, None)
    assert not kw, kw
    top["instruction_forms"] = forms
    return top


def isa_model(isa, forms):
    if not forms:
        forms = [{"name": "verifdummy0", "operands": []}]
    return {"osaca_version": "0.3.4", "isa": isa, "instruction_forms": forms}


class Workdir:
    """Scratch directory for synthetic model files; every model gets a unique file name, files and
    their pickle caches are deleted after use."""

    def __init__(self, prefix="verif-syn-"):
        self.dir = tempfile.mkdtemp(prefix=prefix)
        self.n = 0

    def write(self, top, stem="syn"):
        self.n += 1
        p = os.path.join(self.dir, "%s%d.yml" % (stem, self.n))
        with open(p, "w") as fh:
            fh.write(yaml_doc(top))
        return p

    def clean(self):
        for f in os.listdir(self.dir):
            try:
                os.remove(os.path.join(self.dir, f))
            except OSError:
                pass

    def close(self):
        shutil.rmtree(self.dir, ignore_errors=True)


def load_arch(path, isa_path=None):
    """-> (MachineModel, ArchSemantics) through the public constructors."""
    from osaca.semantics import ArchSemantics, MachineModel

    MachineModel._runtime_cache.clear()  # memory only; every synthetic file has a unique path
    mm = MachineModel(path_to_yaml=path)
    sem = ArchSemantics(mm, path_to_yaml=isa_path) if isa_path else ArchSemantics(mm)
    return mm, sem
