"""G-ports strategies and R-ports reference (Hall feasibility, exact fractional optimum)."""
import itertools

from hypothesis import strategies as st

from lib import synth

CYCLES = [0, 0.25, 0.5, 1, 1, 1, 2, 2, 3, 5]
PORT_NAME_POOLS = [
    ["0", "1", "2", "3", "4", "5", "6", "7"],
    ["0", "0DV", "1", "2", "2D", "3", "3D", "4"],
    ["0", "1", "10", "11", "2", "2D", "5", "9"],
    ["A", "B", "0", "1DV", "7", "8", "12", "3"],
    # multi-character names that are concatenations of one-character names (zen3 '12' vs spec '0123', zen4 '13' vs
    # '135'): a string-form port specification must not be read as naming them
    ["0", "1", "2", "12", "3", "23", "13", "01"],
]


@st.composite
def port_models(draw, max_forms=5, max_uops=4, allow_alt=True, max_ports=8):
    pool = draw(st.sampled_from(PORT_NAME_POOLS))
    nports = draw(st.integers(2, max_ports))
    ports = pool[:nports]
    # base sets -> relations identical / nested / disjoint / properly overlapping all occur
    nbase = draw(st.integers(1, 4))
    base = [sorted(draw(st.sets(st.sampled_from(ports), min_size=1, max_size=nports)), key=ports.index)
            for _ in range(nbase)]

    def port_set():
        k = draw(st.integers(0, 9))
        if k <= 4:
            return list(draw(st.sampled_from(base)))
        if k <= 6 and len(base) >= 2:
            a, b = draw(st.sampled_from(base)), draw(st.sampled_from(base))
            return sorted(set(a) | set(b), key=ports.index)
        if k == 7:
            return list(ports)
        return sorted(draw(st.sets(st.sampled_from(ports), min_size=1, max_size=nports)),
                      key=ports.index)

    def uop_list():
        n = draw(st.integers(0, max_uops)) if draw(st.integers(0, 9)) else 0
        if n == 0 and draw(st.booleans()):
            n = 1
        out = []
        for _ in range(n):
            ps = port_set()
            c = draw(st.sampled_from(CYCLES))
            as_str = all(len(p) == 1 for p in ps) and draw(st.booleans())
            out.append([c, "".join(ps) if as_str else ps])
        return out

    forms = []
    nforms = draw(st.integers(1, max_forms))
    for i in range(nforms):
        alt = allow_alt and draw(st.integers(0, 3)) == 0
        if alt:
            nalt = draw(st.integers(2, 3))
            pp = {j: uop_list() for j in range(nalt)}
        else:
            pp = uop_list()
        tp = draw(st.sampled_from([1.0, 1.0, 1.0, 0.5, 2.0, 0.25, None, 0.0]))
        forms.append({"name": "f%d" % i, "port_pressure": pp, "throughput": tp})
    return {"ports": ports, "forms": forms}


@st.composite
def port_cases(draw, max_len=12, modes=("uniform", "opt1", "opt2"), **kw):
    model = draw(port_models(**kw))
    n = len(model["forms"])
    klen = draw(st.integers(1, max_len))
    kernel = []
    nalt = 0
    for _ in range(klen):
        k = draw(st.integers(0, 11))
        if k == 0:
            kernel.append("#c")
        elif k == 1:
            kernel.append(".L")
        else:
            f = draw(st.integers(0, n - 1))
            if isinstance(model["forms"][f]["port_pressure"], dict):
                if nalt >= 3:  # alternatives are explored depth-first: exponential in their number
                    cands = [j for j in range(n)
                             if not isinstance(model["forms"][j]["port_pressure"], dict)]
                    if not cands:
                        continue
                    f = cands[f % len(cands)]
                else:
                    nalt += 1
            kernel.append(f)
    if not any(isinstance(k, int) for k in kernel):
        kernel.append(0 if not isinstance(model["forms"][0]["port_pressure"], dict) or True else 0)
    return {"model": model, "kernel": kernel, "mode": draw(st.sampled_from(list(modes))),
            "dict": draw(st.integers(0, 3)) == 0}


def model_yaml(model):
    forms = []
    for f in model["forms"]:
        forms.append({
            "name": f["name"],
            "operands": [{"class": "register", "name": "gpr"}, {"class": "register", "name": "gpr"}],
            "throughput": f["throughput"],
            "latency": 1.0,
            "port_pressure": (
                {int(k): v for k, v in f["port_pressure"].items()}
                if isinstance(f["port_pressure"], dict) else f["port_pressure"]),
        })
    return synth.arch_model("x86", model["ports"], forms)


def kernel_text(case):
    lines = []
    lbl = 0
    for k in case["kernel"]:
        if k == "#c":
            lines.append("# a comment")
        elif k == ".L":
            lbl += 1
            lines.append(".L%d:" % lbl)
        else:
            lines.append("%s %%rax, %%rbx" % case["model"]["forms"][k]["name"])
    return "\n".join(lines) + "\n"


def norm_uops(uops):
    """[[c, ports(str|list)]...] -> list of (c, frozenset(ports))"""
    return [(float(c), frozenset(list(p))) for c, p in uops]


def alternatives(form):
    pp = form["port_pressure"]
    if isinstance(pp, dict):
        return [norm_uops(pp[k]) for k in sorted(pp, key=lambda x: int(x))]
    return [norm_uops(pp)]


def hall_deficit(p, uops, ports, scale=None):
    """Largest violation of feasibility of pressure vector p (list aligned with ports) for
    micro-ops uops=[(c, frozenset)]: negativity, support, total, Hall's condition over unions of
    the distinct port sets.  Returns (deficit, description)."""
    worst, why = 0.0, None
    used = set()
    for c, ps in uops:
        used |= ps
    for i, x in enumerate(p):
        if x < -worst:
            if -x > worst:
                worst, why = -x, "negative pressure %r on port %s" % (x, ports[i])
        if ports[i] not in used and abs(x) > worst:
            worst, why = abs(x), "pressure %r on port %s no micro-op may use" % (x, ports[i])
    tot = sum(c for c, _ in uops)
    if abs(sum(p) - tot) > worst:
        worst, why = abs(sum(p) - tot), "sum %r != total cycles %r" % (sum(p), tot)
    sets = list({ps for _, ps in uops})
    for r in range(1, len(sets) + 1):
        for comb in itertools.combinations(sets, r):
            S = frozenset().union(*comb)
            need = sum(c for c, ps in uops if ps <= S)
            have = sum(p[ports.index(q)] for q in S)
            if need - have > worst:
                worst, why = need - have, "ports %s carry %r < %r cycles confined to them" % (
                    sorted(S), have, need)
    return worst, why


def exact_optimum(all_uops):
    """max over unions S of distinct port sets of (cycles confined to S)/|S|; None if too many sets"""
    sets = list({ps for _, ps in all_uops if ps})
    if len(sets) > 12:
        return None
    best = 0.0
    seen = set()
    for r in range(1, len(sets) + 1):
        for comb in itertools.combinations(sets, r):
            S = frozenset().union(*comb)
            if S in seen:
                continue
            seen.add(S)
            tot = sum(c for c, ps in all_uops if ps and ps <= S)
            best = max(best, tot / len(S))
    return best


def overlapping_different(uops):
    ss = [ps for c, ps in uops]
    return any(a != b and (a & b) for a in ss for b in ss)


def opt_tolerance(uops, passes):
    """Tolerance for per-instruction feasibility under optimised scheduling.

    The balancer works in 0.01-cycle steps per micro-op and retires a port of a micro-op from further
    balancing when a value *rounds* to zero at two decimals; each such event may leave up to half a
    step (0.005) of residue on that port, each micro-op loop up to one full step.  Measured maximum on
    the unchanged tree (12k kernels): 0.04 for three micro-ops over 8/4/4 ports after one pass."""
    return passes * (0.01 * max(1, len(uops)) + 0.005 * sum(len(ps) for _, ps in uops)) + 1e-9
