"""R-report: positional parser for OSACA's text report (independent of frontend.py)."""
import re


class ReportError(Exception):
    pass


def parse(text):
    """-> dict(header, warnings{arch,length,lcd_timeout,missing:int|None}, ports[list], lines[list of
    dict(lineno, cells[list of str], cp, lcd, flags, text)], summary(None | dict(cells, cp, lcd)), lcds[list])"""
    lines = text.split("\n")
    out = {"header": {}, "warnings": {"arch": False, "length": False, "lcd_timeout": False, "missing": None},
           "ports": [], "lines": [], "summary": None, "lcds": []}
    for ln in lines[:8]:
        m = re.match(r"^(Analyzed file|Architecture|Timestamp):\s+(.*)$", ln)
        if m:
            out["header"][m.group(1)] = m.group(2).strip()
    out["warnings"]["arch"] = any("WARNING: No micro-architecture was specified" in ln for ln in lines)
    out["warnings"]["length"] = any("WARNING: You are analyzing a large amount of instruction forms" in ln for ln in lines)
    out["warnings"]["lcd_timeout"] = any("WARNING: LCD analysis timed out" in ln for ln in lines)
    for ln in lines:
        m = re.search(r"WARNING: The performance data for (\d+) instructions is missing", ln)
        if m:
            out["warnings"]["missing"] = int(m.group(1))
    try:
        i = lines.index("Combined Analysis Report")
    except ValueError:
        raise ReportError("no combined view")
    hdr = lines[i + 3]
    if not hdr.startswith("     |"):
        raise ReportError("unexpected port header line: %r" % hdr)
    # port cells: spans in the header line
    spans = []
    pos = 6
    while pos < len(hdr) and hdr[pos] != "|":
        m = re.match(r"( +[^ |\-]+ +)([|\-])", hdr[pos:])
        if not m:
            raise ReportError("cannot parse port header at col %d: %r" % (pos, hdr))
        name = m.group(1).strip()
        spans.append((name, pos, pos + len(m.group(1))))
        pos += len(m.group(0))
    out["ports"] = [s[0] for s in spans]
    end_ports = pos  # position of the second '|' of '||'
    if hdr[end_ports:].replace(" ", "") != "|CP|LCD|":
        raise ReportError("unexpected CP/LCD header: %r" % hdr[end_ports:])
    j = i + 5
    while j < len(lines) and lines[j].strip() != "":
        ln = lines[j]
        m = re.match(r"^ *(\d+) \|", ln)
        if not m or len(ln) < end_ports:
            raise ReportError("unexpected table line: %r" % ln)
        cells = [ln[a:b].strip() for _, a, b in spans]
        rest = ln[end_ports:].split("|", 3)
        if len(rest) < 4:
            raise ReportError("cannot split CP/LCD cells: %r" % ln)
        tail = rest[3]
        out["lines"].append({"lineno": int(m.group(1)), "cells": cells, "cp": rest[1].strip(),
                             "lcd": rest[2].strip(), "flags": tail[1:3].strip() if len(tail) > 1 else "",
                             "text": tail[3:] if len(tail) > 3 else "", "raw": ln})
        j += 1
    # after the blank line: summary row or missing-instruction warning
    j += 1
    if j < len(lines) and out["warnings"]["missing"] is None or (
            j < len(lines) and not lines[j].startswith("---") and lines[j].strip() != ""):
        ln = lines[j] if j < len(lines) else ""
        if ln.strip() != "" and not ln.startswith("---"):
            cells = [ln[a:b].strip() for _, a, b in spans]
            tail = ln[end_ports:].split()
            if len(tail) != 2:
                raise ReportError("cannot parse summary CP/LCD: %r" % ln)
            out["summary"] = {"cells": cells, "cp": tail[0], "lcd": tail[1], "raw": ln}
    try:
        k = lines.index("Loop-Carried Dependencies Analysis Report")
        for ln in lines[k + 2:]:
            m = re.match(r"^ *(\d+) \| +([0-9.]+) \| (.*)\| \[([0-9, ]*)\]$", ln)
            if m:
                out["lcds"].append({"first": int(m.group(1)), "latency": float(m.group(2)),
                                    "text": m.group(3).rstrip(),
                                    "lines": [int(x) for x in m.group(4).split(",") if x.strip()]})
            elif ln.strip():
                raise ReportError("unexpected LCD list line: %r" % ln)
    except ValueError:
        pass
    return out


def normalise(text):
    """report text without timestamp and analysed-file line (for equality between runs)"""
    out = []
    for ln in text.split("\n"):
        if ln.startswith("Timestamp:") or ln.startswith("Analyzed file:"):
            continue
        out.append(ln)
    return "\n".join(out)


def numbers(rep):
    """per-instruction numbers keyed by position among *instruction* lines (text stripped), and summary -
    independent of line numbers and of comment/label/directive/blank lines"""
    res = []
    for ln in rep["lines"]:
        t = ln["text"].strip()
        if t == "" or t.startswith(("#", "//", ".")) or t.endswith(":") or re.match(r"^[.\w$]+:\s*(#|//|$)", t):
            if all(c == "" for c in ln["cells"]) and ln["cp"] == "" and ln["lcd"] == "":
                continue
        res.append((re.sub(r"\s+", " ", t), tuple(ln["cells"]), ln["cp"], ln["lcd"], ln["flags"]))
    summ = None
    if rep["summary"]:
        summ = (tuple(rep["summary"]["cells"]), rep["summary"]["cp"], rep["summary"]["lcd"])
    return res, summ
