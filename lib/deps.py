"""G-isa / G-kernel generators and R-dep, the plain-Python reference dependency model.

A case is JSON-able:
  isa        'x86' | 'aarch64'
  forms      [{name, kinds:[kind], lat: number|None, composed: index|None,
               isa: None | {roles:[[s,d]...], hidden:[[flag,[s,d]]...], brk:bool}}]
  stlf, pidx, load_lat
  kernel     [[form_index | 'unk' | '#' | '.L', [operand...]] ...]
  flagdeps   bool
  first_line int  (blank lines before the kernel => first line number = first_line + 1)
operands: x86 ['r', name] ['i', v] ['m', off|None, base|None, index|None, scale]
          a64 ['r', prefix, num(, shape)] ['i', v] ['m', mode, base, index|None, val]  mode in b bo bi pre post
Everything the reference computes comes from this specification, never from OSACA objects.
"""
from hypothesis import strategies as st

from lib import synth

# ------------------------------------------------------------------ register universes
X86_GPR = {
    "A": ["rax", "eax", "ax", "al"], "B": ["rbx", "ebx", "bx", "bl"], "C": ["rcx", "ecx", "cx", "cl"],
    "D": ["rdx", "edx", "dl"], "BP": ["rbp", "ebp"], "SI": ["rsi", "esi", "sil"],
    "R8": ["r8", "r8d", "r8w", "r8b"], "R9": ["r9", "r9d"],
}
X86_FAM = {r: f for f, rs in X86_GPR.items() for r in rs}
for _n in range(3):
    for _p in "xyz":
        X86_FAM["%smm%d" % (_p, _n)] = "V%d" % _n
for _n in range(3):
    X86_FAM["mm%d" % _n] = "MMX%d" % _n  # the MMX registers are a register file of their own (mm1 is not xmm1)
X86_ADDR = ["rax", "rbx", "rcx", "rsi", "rbp", "r8", "r9"]
X86_FLAGS = ["CF", "ZF", "SF", "OF"]
A64_FLAGS = ["N", "Z", "C", "V"]
X86_KINDS = ["gpr", "gpr", "gpr", "xmm", "ymm", "zmm", "mm", "imm"]
A64_KINDS = ["x", "x", "w", "d", "q", "s", "v2d", "zd", "imm"]


def x86_fam(name):
    return X86_FAM[name]


def a64_fam(prefix, num):
    return ("g" if prefix in "wx" else "p" if prefix == "p" else "v") + str(num)


# ------------------------------------------------------------------ strategies
ROLE = st.sampled_from([[True, False], [False, True], [True, True], [True, False], [False, True]])


@st.composite
def forms_strategy(draw, isa, max_forms=6, no_rmw_mem=False):
    n = draw(st.integers(2, max_forms))
    kinds_pool = X86_KINDS if isa == "x86" else A64_KINDS
    flags = X86_FLAGS if isa == "x86" else A64_FLAGS
    forms = []
    for i in range(n):
        nops = draw(st.integers(0 if isa == "x86" else 1, 3))
        kinds = [draw(st.sampled_from(kinds_pool)) for _ in range(nops)]
        composed = None
        memk = draw(st.integers(0, 9))
        if nops and memk < 5:
            if isa == "x86":
                pos = draw(st.integers(0, nops - 1))
            else:
                pos = nops - 1  # AArch64: memory operand last
            if memk < 2 and kinds[pos] not in ("imm",) and not (isa == "aarch64" and kinds[pos] in ("v2d", "zd")):
                composed = pos  # arch entry keeps the register kind, instruction may use memory there
                if isa == "aarch64":
                    kinds[pos] = "x"
            else:
                kinds[pos] = "mem"
        if isa == "aarch64" and kinds and kinds[0] == "imm":
            kinds[0] = "x"
        lat = draw(st.sampled_from([0, 1, 1, 1, 2, 3, 5, 0.5, 10, None]))
        isa_entry = None
        if draw(st.integers(0, 9)) < 7:
            roles = []
            for p_, k in enumerate(kinds):
                if k == "imm":
                    roles.append([True, False])
                else:
                    r = list(draw(ROLE))
                    if no_rmw_mem and r == [True, True] and (k == "mem" or composed == p_):
                        # a read-modify-write memory operand forwards to itself in the next iteration:
                        # LCD kernels are kept free of memory-carried dependencies (C06's domain)
                        r = [True, False] if draw(st.booleans()) else [False, True]
                    roles.append(r)
            hidden = []
            for fl in draw(st.lists(st.sampled_from(flags), max_size=2, unique=True)):
                hidden.append([fl, list(draw(st.sampled_from([[True, False], [False, True], [True, True]])))])
            brk = (nops >= 2 and composed is None and all(k == kinds[0] and k in ("gpr", "xmm", "ymm", "x", "d", "zd")
                                                          for k in kinds)
                   and draw(st.booleans()))
            isa_entry = {"roles": roles, "hidden": hidden, "brk": brk}
        forms.append({"name": "ins%d" % i, "kinds": kinds, "lat": lat, "composed": composed,
                      "isa": isa_entry})
    return forms


def _x86_reg(draw, kind):
    if kind == "gpr":
        fam = draw(st.sampled_from(sorted(X86_GPR)))
        return ["r", draw(st.sampled_from(X86_GPR[fam]))]
    return ["r", "%s%d" % (kind, draw(st.integers(0, 2)))]


def _a64_reg(draw, kind):
    if kind in ("x", "w"):
        return ["r", kind, str(draw(st.integers(1, 5)))]
    if kind == "v2d":
        return ["r", "v", str(draw(st.integers(1, 3))), "2d"]
    if kind == "zd":
        return ["r", "z", str(draw(st.integers(1, 3))), "d"]
    return ["r", kind, str(draw(st.integers(1, 3)))]


@st.composite
def dep_cases(draw, isa=None, max_len=10, min_len=2, allow_noise=True, big_lines=True,
              lcd_safe=False):
    isa = isa or draw(st.sampled_from(["x86", "aarch64"]))
    forms = draw(forms_strategy(isa, no_rmw_mem=lcd_safe))
    n = draw(st.integers(min_len, max_len))
    kernel = []
    for pos in range(n):
        sel = draw(st.integers(0, 19))
        if allow_noise and sel == 0:
            kernel.append(["#", []])
            continue
        if allow_noise and sel == 1:
            kernel.append([".L", []])
            continue
        if sel == 2:
            # mnemonic unknown to both databases: default roles, zero latency
            nops = draw(st.integers(1, 3))
            kinds = [draw(st.sampled_from(["gpr", "gpr", "imm"] if isa == "x86" else ["x", "w", "imm"]))
                     for _ in range(nops)]
            if isa == "aarch64":
                kinds[0] = "x"
            fidx, form = "unk", {"kinds": kinds, "composed": None, "isa": None}
        else:
            fidx = draw(st.integers(0, len(forms) - 1))
            form = forms[fidx]
        ops = []
        for p, k in enumerate(form["kinds"]):
            use_mem = (k == "mem") or (form["composed"] == p and draw(st.booleans()))
            if use_mem:
                role = form["isa"]["roles"][p] if form["isa"] else None
                ops.append(_mem(draw, isa, form, p, pos, role, lcd_safe))
            elif k == "imm":
                ops.append(["i", draw(st.sampled_from([1, 8, -4, 16, 255]))])
            elif isa == "x86":
                ops.append(_x86_reg(draw, k))
            else:
                ops.append(_a64_reg(draw, k))
        if form["isa"] and form["isa"]["brk"] and draw(st.integers(0, 2)) > 0:
            ops = [list(ops[0]) for _ in ops]
        kernel.append([fidx, ops])
    if not any(isinstance(k[0], int) or k[0] == "unk" for k in kernel):
        kernel.append([0, _plain_ops(draw, isa, forms[0])])
    first_line = 0
    if big_lines:
        first_line = draw(st.sampled_from([0, 0, 0, 3, 17, 990, 995, 998, 999, 1000, 1500, 4990]))
    return {
        "isa": isa, "forms": forms, "kernel": kernel,
        "stlf": draw(st.sampled_from([0.0, 2.0, 5.0, None])),
        "pidx": draw(st.sampled_from([1, 1, 2, 3, None])),
        "load_lat": draw(st.sampled_from([4.0, 4.0, 3.0, 0.0, 6.0])),
        "flagdeps": draw(st.booleans()),
        "first_line": first_line,
    }


def _plain_ops(draw, isa, form):
    ops = []
    for k in form["kinds"]:
        if k == "mem":
            ops.append(["m", 4, "rax", None, 1] if isa == "x86" else ["m", "bo", "1", None, 4])
        elif k == "imm":
            ops.append(["i", 1])
        elif isa == "x86":
            ops.append(_x86_reg(draw, k))
        else:
            ops.append(_a64_reg(draw, k))
    return ops


def _mem(draw, isa, form, p, pos, role, lcd_safe=False):
    """Memory operand.  Displacements are drawn from disjoint residue classes per role (load 4/12 mod 16,
    store 0/8 mod 16, read-modify-write 2+32*line) and write-back increments are multiples of 16, so that
    no store/load address pair in the kernel can be equal: store-to-load forwarding is C06's domain."""
    if role is None:
        # default rule: x86 last operand / AArch64 first operand is the destination, others sources
        n = len(form["kinds"])
        if n == 1:
            role = [True, False]
        elif isa == "x86":
            role = [False, True] if p == n - 1 else [True, False]
        else:
            role = [False, True] if p == 0 else [True, False]
    s, d = role
    if s and d:
        off = 2 + 32 * pos
    elif d:
        off = draw(st.sampled_from([None, 0, 8, 16, -8, 24]))
    else:
        off = draw(st.sampled_from([4, 12, 20, -4]))
    if isa == "x86":
        base = draw(st.sampled_from(X86_ADDR + [None]))
        index = draw(st.sampled_from([None, None, "rdx", "r8", "rcx", "rsi"]))
        if base is None and index is None:
            base = "rax"
        scale = draw(st.sampled_from([1, 2, 4, 8])) if index else 1
        if off is None and base is None:
            off = 0 if d else 4
        return ["m", off, base, index, scale]
    base = str(draw(st.integers(1, 5)))
    if lcd_safe:
        # loads and stores through disjoint base registers: no address pair can be equal even across
        # write-back increments and iterations
        base = str(draw(st.integers(1, 3))) if not d else str(draw(st.integers(4, 5)))
    modes = ["b", "bo", "bo", "bi"]
    if not (s and d):
        modes += ["pre", "post"]
    else:
        modes = ["bo"]  # read-modify-write: unique displacement per line, so two of them never alias
    mode = draw(st.sampled_from(modes))
    if off is None or off == 0:
        off = 8
    if mode == "b":
        return ["m", "b", base, None, None] if (d and not s) else ["m", "bo", base, None, off]
    if mode == "bi":
        # register index, no displacement: only usable when no displacement class is needed -> keep
        # distinct index registers per role instead (x6 for loads, x7 for stores, x8 for rmw)
        ix = "6" if (s and not d) else "7" if (d and not s) else "8"
        return ["m", "bi", base, ix, None]
    if mode in ("pre", "post"):
        return ["m", mode, base, None, draw(st.sampled_from([16, 32, -16]))]
    return ["m", "bo", base, None, off]


# ------------------------------------------------------------------ model files
def _x86_op(kind, role=None):
    if kind in ("gpr", "xmm", "ymm", "zmm", "mm"):
        o = {"class": "register", "name": kind}
    elif kind == "imm":
        o = {"class": "immediate", "imd": "int"}
    else:
        o = {"class": "memory", "base": "*", "offset": "*", "index": "*", "scale": "*"}
    if role is not None:
        o["source"], o["destination"] = bool(role[0]), bool(role[1])
    return o


def _a64_op(kind, role=None):
    if kind == "v2d":
        o = {"class": "register", "prefix": "v", "shape": "d"}
    elif kind == "zd":
        o = {"class": "register", "prefix": "z", "shape": "d"}
    elif kind in ("x", "w", "d", "q", "s"):
        o = {"class": "register", "prefix": kind}
    elif kind == "imm":
        o = {"class": "immediate", "imd": "int"}
    else:
        o = {"class": "memory", "base": "*", "offset": "*", "index": "*", "scale": "*",
             "pre_indexed": "*", "post_indexed": "*"}
    if role is not None:
        o["source"], o["destination"] = bool(role[0]), bool(role[1])
    return o


def model_dicts(case):
    isa = case["isa"]
    op = _x86_op if isa == "x86" else _a64_op
    aforms, iforms = [], []
    for f in case["forms"]:
        aforms.append({
            "name": f["name"],
            "operands": [op(k) for k in f["kinds"]],
            "throughput": 1.0,
            "latency": f["lat"],
            "port_pressure": [[1, "01"]],
        })
        if f["isa"]:
            e = {"name": f["name"], "operands": [op(k, r) for k, r in zip(f["kinds"], f["isa"]["roles"])]}
            if f["isa"]["hidden"]:
                e["hidden_operands"] = [{"class": "flag", "name": fl, "source": bool(r[0]),
                                         "destination": bool(r[1])} for fl, r in f["isa"]["hidden"]]
            if f["isa"]["brk"]:
                e["breaks_dependency_on_equal_operands"] = True
            iforms.append(e)
    ll = case.get("load_lat", 4.0)
    keys = ["gpr", "mm", "xmm", "ymm", "zmm"] if isa == "x86" else list("wxbhsdqvz")
    arch = synth.arch_model(
        isa if isa == "x86" else "AArch64", ["0", "1", "2"], aforms,
        load_latency={k: ll for k in keys},
        load_throughput_default=[[1, "2"]], store_throughput_default=[[1, "2"]],
        store_to_load_forward_latency=case.get("stlf"),
        p_index_latency=case.get("pidx") if isa == "aarch64" else None,
    )
    return arch, synth.isa_model(isa if isa == "x86" else "AArch64", iforms)


# ------------------------------------------------------------------ rendering
def render_operand(isa, o):
    if isa == "x86":
        if o[0] == "r":
            return "%" + o[1]
        if o[0] == "i":
            return "$%d" % o[1]
        _, off, b, ix, sc = o
        s = "" if off is None else str(off)
        s += "(" + ("%" + b if b else "")
        if ix:
            s += ",%" + ix + ",%d" % sc
        return s + ")"
    if o[0] == "r":
        return o[1] + o[2] + ("." + o[3] if len(o) > 3 else "")
    if o[0] == "i":
        return "#%d" % o[1]
    _, mode, b, ix, v = o
    return {"b": "[x%s]" % b, "bo": "[x%s, #%s]" % (b, v), "bi": "[x%s, x%s]" % (b, ix),
            "pre": "[x%s, #%s]!" % (b, v), "post": "[x%s], #%s" % (b, v)}[mode]


def line_text(case, entry):
    f, ops = entry
    if f == "#":
        return ("# note" if case["isa"] == "x86" else "// note")
    if f == ".L":
        return ".LBL0:"
    name = "unk7" if f == "unk" else case["forms"][f]["name"]
    return (name + " " + ", ".join(render_operand(case["isa"], o) for o in ops)).rstrip()


def kernel_text(case, kernel=None):
    kernel = case["kernel"] if kernel is None else kernel
    lines = []
    lbl = 0
    for e in kernel:
        if e[0] == ".L":
            lbl += 1
            lines.append(".LBL%d:" % lbl)
        else:
            lines.append(line_text(case, e))
    return "\n" * case.get("first_line", 0) + "\n".join(lines) + "\n"


# ------------------------------------------------------------------ reference semantics
def form_of(case, entry):
    f, ops = entry
    if f in ("#", ".L"):
        return None
    if f == "unk":
        return {"name": "unk7", "kinds": None, "lat": None, "composed": None, "isa": None, "unknown": True}
    return case["forms"][f]


def roles_of(case, form, ops):
    """-> (roles per operand, hidden flags [(name,(s,d))], zero_idiom: bool)"""
    isa = case["isa"]
    if form["isa"]:
        e = form["isa"]
        if e["brk"] and len(ops) >= 1 and all(o == ops[0] for o in ops):
            return [[False, True]] * len(ops), [(fl, (False, True)) for fl, _ in e["hidden"]], True
        return e["roles"], [(fl, tuple(r)) for fl, r in e["hidden"]], False
    n = len(ops)
    if n == 1:
        return [[True, False]], [], False
    if isa == "x86":
        return [[True, False]] * (n - 1) + [[False, True]], [], False
    return [[False, True]] + [[True, False]] * (n - 1), [], False


def reg_fam(isa, o):
    return x86_fam(o[1]) if isa == "x86" else a64_fam(o[1], o[2])


def mem_regs(isa, o):
    """(base family|None, index family|None, writeback: bool)"""
    if isa == "x86":
        return (x86_fam(o[2]) if o[2] else None, x86_fam(o[3]) if o[3] else None, False)
    return ("g" + o[2], "g" + o[3] if o[3] else None, o[1] in ("pre", "post"))


def info_of(case, entry):
    """dict(R, W, WB, RF, WF, lat (terminal), w (edge weight), load (separate load stage or None),
    has_load_node)"""
    form = form_of(case, entry)
    if form is None:
        return None
    isa = case["isa"]
    ops = entry[1]
    roles, hidden, _ = roles_of(case, form, ops)
    R, W, WB, RF, WF = set(), set(), set(), set(), set()
    Rn, Wn = {}, {}  # family -> spellings (to recognise aliasing edges)
    loads = stores = 0
    mems = []
    for o, (s, d) in zip(ops, roles):
        if o[0] == "r":
            nm = "".join(o[1:3]) if isa == "aarch64" else o[1]
            if s:
                R.add(reg_fam(isa, o))
                Rn.setdefault(reg_fam(isa, o), set()).add(nm)
            if d:
                W.add(reg_fam(isa, o))
                Wn.setdefault(reg_fam(isa, o), set()).add(nm)
        elif o[0] == "m":
            b, ix, wb = mem_regs(isa, o)
            if s or d:
                if b:
                    R.add(b)
                    Rn.setdefault(b, set()).add(o[2] if isa == "x86" else "x" + o[2])
                if ix:
                    R.add(ix)
                    Rn.setdefault(ix, set()).add(o[3] if isa == "x86" else "x" + o[3])
                if wb:
                    WB.add(b)
                    Wn.setdefault(b, set()).add("x" + o[2])
            if s:
                loads += 1
            if d:
                stores += 1
            mems.append((bool(s), bool(d), b, wb))
    for fl, (s, d) in hidden:
        if s:
            RF.add(fl)
        if d:
            WF.add(fl)
    unknown = form.get("unknown")
    lat = 0.0 if (unknown or form["lat"] is None) else float(form["lat"])
    mem_used = any(o[0] == "m" for o in ops)
    composed = (not unknown) and form["composed"] is not None and mem_used
    load_stage = None
    total = lat
    if composed and loads:
        load_stage = float(case.get("load_lat", 4.0))
        total = lat + load_stage
    # a separate load node exists for every instruction that loads but is not served by a direct entry
    has_load_node = loads > 0 and (composed or unknown)
    return {"R": R, "W": W, "WB": WB, "RF": RF, "WF": WF, "lat": total, "w": lat,
            "load": load_stage, "has_load_node": has_load_node, "loads": loads, "stores": stores,
            "mems": mems, "Rn": Rn, "Wn": Wn, "zero_idiom": roles_of(case, form, ops)[2],
            "composed": composed, "unknown": bool(unknown)}


def ref_edges(case, kernel=None):
    """RAW relation with kill over `kernel` (default case['kernel']): {(a,b): set(candidate weights)}"""
    kernel = case["kernel"] if kernel is None else kernel
    info = [info_of(case, e) for e in kernel]
    n = len(kernel)
    pidx = case.get("pidx")
    pidx = 1 if pidx is None else pidx
    E = {}
    for a in range(n):
        ia = info[a]
        if ia is None:
            continue
        prods = [(r, ia["w"]) for r in sorted(ia["W"])] + [(r, pidx) for r in sorted(ia["WB"])]
        for r, w in prods:
            for b in range(a + 1, n):
                ib = info[b]
                if ib is None:
                    continue
                if r in ib["R"] or r in ib["WB"]:
                    E.setdefault((a, b), set()).add(w)
                if r in ib["W"] or r in ib["WB"]:
                    break
        if case.get("flagdeps"):
            for fl in sorted(ia["WF"]):
                for b in range(a + 1, n):
                    ib = info[b]
                    if ib is None:
                        continue
                    if fl in ib["RF"]:
                        E.setdefault((a, b), set()).add(ia["w"])
                    if fl in ib["WF"]:
                        break
    return E, info


def uncertain_pairs(case, info):
    """AArch64 only: store a -> load b pairs through the same base register where a write-back is
    involved - the displacement classes then no longer rule out equal addresses, a store-to-load edge
    may legitimately exist (C06 decides those), so such a pair is not asserted either way."""
    unc = set()
    if case["isa"] != "aarch64":
        return unc
    n = len(info)
    for a in range(n):
        if info[a] is None:
            continue
        for (sa, da, ba, wba) in info[a]["mems"]:
            if not da:
                continue
            for b in range(a + 1, n):
                if info[b] is None:
                    continue
                for (sb, db, bb, wbb) in info[b]["mems"]:
                    if sb and bb == ba:
                        if wba or wbb or any(info[c] is not None and ba in info[c]["WB"]
                                             for c in range(a, b + 1)):
                            unc.add((a, b))
    return unc


def longest_chain(case, E, info):
    """Reference critical path: (value, set of acceptable values given multi-candidate edges is
    collapsed by taking each candidate extreme) -> returns (lo, hi) using min / max candidates."""
    n = len(info)
    out = []
    for pick in (min, max):
        acc_inner = [0.0] * n  # best accumulated edge weight of a chain reaching node i (may use own load)
        best = 0.0
        for b in range(n):
            if info[b] is None:
                continue
            acc_end = 0.0
            for (a, bb), ws in E.items():
                if bb == b:
                    acc_end = max(acc_end, acc_inner[a] + pick(ws))
            own = info[b]["load"] if (info[b]["has_load_node"] and info[b]["load"]) else 0.0
            acc_inner[b] = max(acc_end, own)
            best = max(best, acc_end + info[b]["lat"])
        out.append(best)
    return out[0], out[1]


def ref_cycles(case):
    """{frozenset(member positions): set(possible latency sums)} of winding-number-1 cycles."""
    k = case["kernel"]
    n = len(k)
    E2, _ = ref_edges(case, k + k)
    adj = {}
    for (a, b), ws in E2.items():
        adj.setdefault(a, []).append((b, ws))
    res = {}

    def dfs(start, node, path, sums):
        for b, ws in adj.get(node, ()):
            ns = {s + w for s in sums for w in ws}
            if b == start + n:
                res.setdefault(frozenset(x % n for x in path), set()).update(ns)
            elif b < start + n and b not in path:
                dfs(start, b, path + [b], ns)

    for s in range(n):
        if form_of(case, k[s]) is not None:
            dfs(s, s, [s], {0.0})
    return res
