"""Harness-owned schedules for the multi-process LCD search (C16, C19).

The worker count (kernel_dg.cpu_count), the parallel threshold (KernelDG.INSTRUCTION_THRESHOLD) and the time at
which each worker finishes (a KernelDG subclass that sleeps before/after the real _extend_path and records
completion) are set from outside the source tree; workers inherit them through fork."""
import os
import tempfile
import time


def lcd_repr(dg, first_line=0):
    lcd = dg.get_loopcarried_dependencies()
    rep = {k: (float(v["latency"]), [(n.line_number - first_line, float(lat)) for n, lat in v["dependencies"]],
               v["root"].line_number - first_line) for k, v in lcd.items()}
    return rep, list(lcd.keys())


def make_class(delays=None, record_dir=None, after=None):
    """delays: {first line number of the chunk (or '*'): seconds before the search of that chunk starts};
    after: same, seconds slept after the search; record_dir: a file per finished chunk is written there."""
    from osaca.semantics import KernelDG

    class ScheduledKernelDG(KernelDG):
        def _extend_path(self, dst_list, kernel, dg, offset):
            key = kernel[0].line_number if kernel else None
            d = (delays or {}).get(str(key), (delays or {}).get("*", 0))
            if d:
                time.sleep(d)
            super()._extend_path(dst_list, kernel, dg, offset)
            a = (after or {}).get(str(key), (after or {}).get("*", 0))
            if a:
                time.sleep(a)
            if record_dir is not None:
                with open(os.path.join(record_dir, "done-%s-%d" % (key, os.getpid())), "w") as fh:
                    fh.write("%f" % time.time())

    return ScheduledKernelDG


class Patched:
    """context manager: worker count and threshold"""

    def __init__(self, ncpu=None, threshold=None):
        self.ncpu, self.threshold = ncpu, threshold

    def __enter__(self):
        import osaca.semantics.kernel_dg as kd
        from osaca.semantics import KernelDG

        self.kd = kd
        self.old_cpu, self.old_thr = kd.cpu_count, KernelDG.INSTRUCTION_THRESHOLD
        if self.ncpu is not None:
            n = self.ncpu
            kd.cpu_count = lambda: n
        if self.threshold is not None:
            KernelDG.INSTRUCTION_THRESHOLD = self.threshold
        return self

    def __exit__(self, *a):
        from osaca.semantics import KernelDG

        self.kd.cpu_count = self.old_cpu
        KernelDG.INSTRUCTION_THRESHOLD = self.old_thr


def chunks(klen, ncpu):
    """the static partition the property describes: contiguous chunks of ceil(klen/ncpu) root instructions"""
    w = (klen - 1) // ncpu + 1
    return [(t * w, min((t + 1) * w, klen)) for t in range(ncpu) if t * w < klen]


def children_of(pid):
    """live (non-zombie) child processes of pid"""
    out = []
    for d in os.listdir("/proc"):
        if not d.isdigit():
            continue
        try:
            with open("/proc/%s/stat" % d) as fh:
                st = fh.read()
            rest = st[st.rindex(")") + 2:].split()
            state, ppid = rest[0], int(rest[1])
            if ppid == pid and state != "Z":
                out.append(int(d))
        except (OSError, ValueError):
            continue
    return out
