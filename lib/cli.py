"""Drive the OSACA command line: in-process (osaca.osaca.run) or as a subprocess with its own $HOME."""
import io
import os
import subprocess
import tempfile

from lib import env


class Recorder:
    """Records the KernelDG objects osaca.osaca.inspect creates (harness side, no change to the repository)."""

    def __init__(self):
        self.graphs = []

    def install(self):
        import osaca.osaca as oo
        from osaca.semantics import KernelDG

        rec = self

        class RecordingKernelDG(KernelDG):
            def __init__(self, *a, **kw):
                super().__init__(*a, **kw)
                rec.graphs.append(self)

        self._orig = oo.KernelDG
        oo.KernelDG = RecordingKernelDG
        return self

    def remove(self):
        import osaca.osaca as oo

        oo.KernelDG = self._orig


def run_inprocess(argv, code, suffix=".s", want_yaml=False):
    """-> (stdout text, yaml dict or None, path).  argv without the file argument."""
    import osaca.osaca as oo
    from ruamel.yaml import YAML

    d = tempfile.mkdtemp(prefix="verif-cli-")
    path = os.path.join(d, "kernel" + suffix)
    with open(path, "w") as fh:
        fh.write(code)
    ypath = os.path.join(d, "out.yml")
    args_list = list(argv)
    if want_yaml:
        args_list += ["--yaml-out", ypath]
    args_list.append(path)
    parser = oo.create_parser()
    args = parser.parse_args(args_list)
    try:
        oo.check_arguments(args, parser)
        out = io.StringIO()
        oo.run(args, output_file=out)
        ydict = None
        if want_yaml:
            args.yaml_out.close()
            with open(ypath) as fh:
                ydict = YAML(typ="unsafe", pure=True).load(fh)
        return out.getvalue(), ydict, path
    finally:
        try:
            args.file.close()
        except Exception:
            pass
        for f in (path, ypath):
            try:
                os.remove(f)
            except OSError:
                pass
        try:
            os.rmdir(d)
        except OSError:
            pass


def run_subprocess(argv, code=None, path=None, home=None, timeout=300, hashseed="0", extra_env=None):
    """-> (returncode, stdout, stderr)"""
    tmp = None
    if path is None:
        tmp = tempfile.mkdtemp(prefix="verif-cli-")
        path = os.path.join(tmp, "kernel.s")
        with open(path, "w") as fh:
            fh.write(code)
    e = env.child_env()
    if home:
        e["HOME"] = home
    e["PYTHONHASHSEED"] = str(hashseed)
    if extra_env:
        e.update(extra_env)
    try:
        p = subprocess.run([env.PY, "-m", "osaca"] + list(argv) + [path], env=e, capture_output=True, timeout=timeout,
                           cwd=tmp or os.path.dirname(path))
        return p.returncode, p.stdout.decode(errors="replace"), p.stderr.decode(errors="replace")
    finally:
        if tmp:
            import shutil
            shutil.rmtree(tmp, ignore_errors=True)
