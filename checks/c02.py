"""C02 - optimised schedule never worse than uniform and close to the exact optimum."""
import itertools
import os

from lib import core, ports, synth
from lib.core import Stats, Violation, failure_record, guard, hyp_search

ID = "C02"
LEVEL = "exploration"
WARM = []
RULE = (
    "(a) the same Hypothesis stream of synthetic port models x kernels as C01, each analysed under uniform, "
    "one and two balancing passes; oracle: bottleneck_opt <= bottleneck_uniform and bottleneck_opt >= exact "
    "fractional optimum (max over unions S of port sets of cycles confined to S / |S|, minimised over "
    "alternative assignments) minus the rounding tolerance; (b) the bounded family enumerated completely (and every 9th kernel of it - thorough: every kernel - also "
    "through the CLI, 'osaca --arch A FILE' with the family's model as a user model file, so that the CLI's own "
    "orchestration of the two passes is what is measured): "
    "every ordered kernel of length <=4 over the 7 one-cycle single-micro-op forms on the non-empty subsets "
    "of 3 ports and of length <=3 over those plus the 7 two-cycle forms (5355 kernels), two passes as the "
    "CLI: |bottleneck - optimum| within [-0.01, 0.15]. Non-trivial: the exact optimum is more than 0.01 "
    "below the uniform bottleneck (balancing can and must improve on 1/N). Distinct = distinct (model, kernel)."
)
ASSUMPTIONS = [
    "lower-bound tolerance in the random part = 0.01 + sum over summed instructions of C01's per-instruction "
    "tolerance (lib.ports.opt_tolerance); exactly the 0.01 rounding step in the bounded family",
    "kernels containing an instruction of known finding F-C01-1's class are checked against the lower bound "
    "after one pass only",
]
MIN_NONTRIVIAL = {"quick": 300, "thorough": 3000}
PORTS3 = ["0", "1", "2"]


class Runner:
    def __init__(self):
        from osaca.parser import ParserX86ATT

        self.wd = synth.Workdir()
        self.parser = ParserX86ATT()
        self.isa = self.wd.write(synth.isa_model("x86", []), stem="isa")

    def close(self):
        self.wd.close()


_R = {}


def runner():
    if "r" not in _R:
        _R["r"] = Runner()
    return _R["r"]


def summed_uops(kernel):
    """micro-ops of all lines that are summed (throughput != 0), as reported"""
    out = []
    for i in kernel:
        if i.throughput != 0.0 and i.mnemonic is not None:
            u = i.port_uops
            if isinstance(u, dict):
                u = u[sorted(u)[0]]
            out += ports.norm_uops(u)
    return out


def bottleneck(sem, kernel):
    s = guard(sem.get_throughput_sum, kernel, what="get_throughput_sum")
    return max(s) if s else 0.0


def check_case(case):
    from checks.c01 import _rm

    r = runner()
    model = case["model"]
    path = r.wd.write(ports.model_yaml(model))
    try:
        mm, sem = guard(synth.load_arch, path, r.isa, what="model load")
        kernel = guard(r.parser.parse_file, ports.kernel_text(case), what="parse_file")
        guard(sem.add_semantics, kernel, what="add_semantics")
        b_uni = bottleneck(sem, kernel)
        # exact optimum over the admissible alternatives (from the generated model, not from OSACA)
        summed = [k for idx, k in enumerate(case["kernel"]) if isinstance(k, int)
                  and model["forms"][k]["throughput"] not in (None, 0.0)]
        alt_lists = [ports.alternatives(model["forms"][k]) for k in summed]
        n_comb = 1
        for a in alt_lists:
            n_comb *= len(a)
        opt = None
        if n_comb <= 64:
            for choice in itertools.product(*alt_lists):
                o = ports.exact_optimum([u for ul in choice for u in ul])
                if o is None:
                    opt = None
                    break
                opt = o if opt is None else min(opt, o)
        f1 = any(ports.overlapping_different(a) for al in alt_lists for a in al)
        multi_tol = sum(max(ports.opt_tolerance(a, 1) for a in al) for al in alt_lists)
        res = {}
        for passes in (1, 2):
            guard(sem.assign_optimal_throughput, kernel, what="assign_optimal_throughput")
            b = bottleneck(sem, kernel)
            res[passes] = b
            if b > b_uni + 1e-9:
                raise Violation("worse-than-uniform:pass%d" % passes,
                                "optimised bottleneck exceeds uniform bottleneck", b, b_uni)
            if opt is not None and not (passes == 2 and f1 and not os.environ.get("VERIF_NO_KNOWN")):
                tol = 0.01 + multi_tol * passes + 1e-9
                if b < opt - tol:
                    raise Violation("undercut:pass%d:%s" % (passes, "f1class" if f1 else "plain"),
                                    "optimised bottleneck undercuts the exact optimum by more than the "
                                    "tolerance %.3f" % tol, b, opt)
    finally:
        _rm(path)
    nt = opt is not None and opt < b_uni - 0.01
    cl = []
    if opt is None:
        cl.append("optimum-not-computed")
    if f1:
        cl.append("f1-class-kernel")
    if nt:
        cl.append("improvable")
        if res[2] < b_uni - 1e-9:
            cl.append("improved")
        g = res[2] - opt
        cl.append("gap<=0.02" if g <= 0.02 else "gap<=0.15" if g <= 0.15 else "gap<=1" if g <= 1 else "gap>1")
    return {"nontrivial": nt, "classes": cl, "key": [model, case["kernel"]],
            "excluded": {"F-C01-1": 1} if f1 else {},
            "sample": {"ports": model["ports"], "forms": model["forms"], "kernel": case["kernel"],
                       "uniform": b_uni, "opt1": res[1], "opt2": res[2], "optimum": opt}}


# ---------------------------------------------------------------- bounded family
def family_forms():
    subsets = [list(s) for r in (1, 2, 3) for s in itertools.combinations(PORTS3, r)]
    forms = []
    for c in (1, 2):
        for s in subsets:
            forms.append({"name": "g%dp%s" % (c, "".join(s)), "port_pressure": [[c, s]],
                          "throughput": 1.0})
    return forms


def family_kernels():
    ks = set()
    for L in range(1, 5):
        ks.update(itertools.product(range(7), repeat=L))
    for L in range(1, 4):
        ks.update(itertools.product(range(14), repeat=L))
    return sorted(ks)


def check_family_kernel(kern, ctx=None):
    forms = family_forms()
    if ctx is None:
        r = runner()
        path = r.wd.write(ports.model_yaml({"ports": PORTS3, "forms": forms}), stem="fam")
        mm, sem = guard(synth.load_arch, path, r.isa, what="model load")
        ctx = (r, sem)
    r, sem = ctx
    text = "".join("%s %%rax, %%rbx\n" % forms[k]["name"] for k in kern)
    kernel = guard(r.parser.parse_file, text, what="parse_file")
    guard(sem.add_semantics, kernel, what="add_semantics")
    b_uni = bottleneck(sem, kernel)
    opt = ports.exact_optimum([u for k in kern for u in ports.norm_uops(forms[k]["port_pressure"])])
    guard(sem.assign_optimal_throughput, kernel, what="assign_optimal_throughput")
    b1 = bottleneck(sem, kernel)
    guard(sem.assign_optimal_throughput, kernel, what="assign_optimal_throughput")
    b2 = bottleneck(sem, kernel)
    for tag, b in (("pass1", b1), ("pass2", b2)):
        if b > b_uni + 1e-9:
            raise Violation("family:worse-than-uniform:" + tag, "optimised exceeds uniform", b, b_uni)
        if b < opt - 0.01 - 1e-9:
            raise Violation("family:undercut:" + tag, "bottleneck undercuts exact optimum by more than the "
                            "rounding step", b, opt)
    if b2 - opt > 0.15 + 1e-9:
        raise Violation("family:gap", "reported bottleneck more than 0.15 above the exact optimum",
                        b2, opt)
    return {"nontrivial": opt < b_uni - 0.01, "classes": ["family"],
            "key": ["family", list(kern)],
            "sample": {"family_kernel": [forms[k]["name"] for k in kern], "uniform": b_uni, "opt2": b2,
                       "optimum": opt}, "gap": b2 - opt}


# ---------------------------------------------------------------- the bounded family through the CLI
_CLI = {}


def family_cli_setup():
    """the family's model under the name of a shipped micro-architecture in a data directory that precedes the
    package data (as a user's ~/.osaca/data would), so that 'osaca --arch zen1 FILE' - the CLI with its own
    orchestration of the balancing passes - analyses family kernels"""
    if _CLI:
        return
    import tempfile
    from osaca import utils

    d = tempfile.mkdtemp(prefix="verif-c02-data-")
    top = ports.model_yaml({"ports": PORTS3, "forms": family_forms()})
    top["arch_code"] = "zen1"
    with open(os.path.join(d, "zen1.yml"), "w") as fh:
        fh.write(synth.yaml_doc(top))
    utils.DATA_DIRS.insert(0, d)
    _CLI["dir"] = d


def check_family_kernel_cli(kern):
    from lib import cli, report

    family_cli_setup()
    forms = family_forms()
    text = "".join("%s %%rax, %%rbx\n" % forms[k]["name"] for k in kern)
    uops = [u for k in kern for u in ports.norm_uops(forms[k]["port_pressure"])]
    opt = ports.exact_optimum(uops)
    b_uni = max(sum(c / len(ps) for c, ps in uops if q in ps) for q in PORTS3)
    out, _, _ = guard(cli.run_inprocess, ["--arch", "zen1", "--ignore-unknown"], text, what="osaca --arch zen1")
    try:
        rep = report.parse(out)
        tot = [float(x) if x != "" else 0.0 for x in rep["summary"]["cells"]]
    except (report.ReportError, TypeError, KeyError, ValueError) as e:
        raise Violation("family-cli:report", "CLI report of a family kernel cannot be read: %r" % (e,), out[-400:], None)
    b = max(tot)
    if b > b_uni + 0.005 + 1e-9:
        raise Violation("family-cli:worse-than-uniform", "bottleneck reported by the CLI exceeds uniform", b, b_uni)
    if b < opt - 0.01 - 0.005 - 1e-9:
        raise Violation("family-cli:undercut", "bottleneck reported by the CLI undercuts the exact optimum by more than "
                        "the rounding step", b, opt)
    if b - opt > 0.15 + 0.005 + 1e-9:
        raise Violation("family-cli:gap", "bottleneck reported by the CLI (two passes as it runs them) more than 0.15 "
                        "above the exact optimum", b, opt)
    return {"nontrivial": opt < b_uni - 0.01, "classes": ["family-through-cli"], "key": ["family-cli", list(kern)],
            "sample": {"family_kernel_cli": [forms[k]["name"] for k in kern], "uniform": b_uni, "cli": b,
                       "optimum": opt}}


def plan(tier, seed):
    n = {"quick": 400, "thorough": 6000}[tier]
    shards = [{"kind": "family", "i": i, "of": 6} for i in range(6)]
    shards += [{"kind": "family-cli", "i": i, "of": 4, "stride": 9 if tier == "quick" else 1, "seed": seed}
               for i in range(4)]
    shards += [{"kind": "synthetic", "seed": seed * 1000 + 100 + i, "n": n,
                "max_len": 12 if tier == "quick" or i % 2 else 40} for i in range(10)]
    return shards


def run_shard(spec):
    stats = Stats()
    if spec["kind"] == "family":
        kernels = family_kernels()
        assert len(kernels) == 5355, len(kernels)
        mine = kernels[spec["i"]::spec["of"]]
        r = runner()
        path = r.wd.write(ports.model_yaml({"ports": PORTS3, "forms": family_forms()}), stem="fam")
        mm, sem = guard(synth.load_arch, path, r.isa, what="model load")
        failures = {}
        gmax, gmin = -9.0, 9.0
        for kern in mine:
            case = {"family_kernel": list(kern)}
            try:
                info = check_family_kernel(kern, (r, sem))
            except Violation as v:
                stats.evaluations += 1
                if v.bucket not in failures:
                    failures[v.bucket] = failure_record(ID, case, v)
                continue
            gmax, gmin = max(gmax, info["gap"]), min(gmin, info["gap"])
            stats.record(case, info)
        r.close()
        return {"stats": stats.to_dict(), "failures": list(failures.values()), "exhaustive": True,
                "extra": {"family_kernels": len(mine), "family_gap_max_%d" % spec["i"]: round(gmax, 4),
                          "family_gap_min_%d" % spec["i"]: round(gmin, 4)}}
    if spec["kind"] == "family-cli":
        kernels = family_kernels()[spec["seed"] % spec["stride"]::spec["stride"]][spec["i"]::spec["of"]]
        failures = {}
        for kern in kernels:
            case = {"family_kernel_cli": list(kern)}
            try:
                info = check_family_kernel_cli(kern)
            except Violation as v:
                stats.evaluations += 1
                if v.bucket not in failures:
                    failures[v.bucket] = failure_record(ID, case, v)
                continue
            stats.record(case, info)
        return {"stats": stats.to_dict(), "failures": list(failures.values()), "exhaustive": spec["stride"] == 1}
    strat = ports.port_cases(max_len=spec["max_len"], modes=("opt2",))
    failures = hyp_search(ID, strat, check_case, stats, seed=spec["seed"], max_examples=spec["n"])
    runner().close()
    return {"stats": stats.to_dict(), "failures": failures, "exhaustive": False}


def replay(case):
    if "family_kernel" in case:
        return check_family_kernel(tuple(case["family_kernel"]))
    if "family_kernel_cli" in case:
        return check_family_kernel_cli(tuple(case["family_kernel_cli"]))
    return check_case(case)


LEVEL_TEXT = ("Complete enumeration of the stated bounded family (5355 kernels) against the exact fractional "
              "optimum, plus randomised search over synthetic port models for the two inequalities; the "
              "family part is exhaustive, the random part gives evidence proportional to its counts.")
LEVEL_NOTE = ("Trusted: the Hall/LP-duality formula for the exact optimum (lib/ports.exact_optimum), the "
              "tolerances stated in the evidence; kernels with >12 distinct port sets or >64 alternative "
              "combinations skip the lower bound (counted).")
TECHNIQUE = "bounded-exhaustive enumeration + property-based testing against an exact fractional-optimum oracle"
