"""C12 - register dependence equals architectural register overlap (exhaustive)."""
import itertools

from lib.core import Stats, Violation, failure_record, guard

ID = "C12"
LEVEL = "exploration"
EXHAUSTIVE = True
WARM = []
RULE = (
    "exhaustive enumeration of all ordered pairs of register names per ISA (x86: 16 GPR families x "
    "4-5 widths, xmm/ymm/zmm0-31, mm0-7, k0-7 = 180 names; AArch64: prefixes w,x,b,h,s,d,q,v,z,p x "
    "0-31 plus sp/wsp/xzr/wzr = 324 names) x 4 upper/lower-case combinations, as RegisterOperand "
    "objects and (where the assembler syntax allows) as operands obtained from the real parser; "
    "oracle = architectural partition + reflexivity/symmetry; a pair is non-trivial when both "
    "names belong to one family but are spelled differently (alias pair); distinct = distinct "
    "(isa, name_a, name_b, case variant)"
)
ASSUMPTIONS = [
    "xzr/wzr hold no state: only self-dependence of an identically spelled zero register and "
    "independence from every numbered/sp register is required; wzr vs xzr is not asserted",
]
MIN_NONTRIVIAL = {"quick": 1000, "thorough": 1000}


def x86_families():
    fam = {
        "A": ["rax", "eax", "ax", "al", "ah"],
        "B": ["rbx", "ebx", "bx", "bl", "bh"],
        "C": ["rcx", "ecx", "cx", "cl", "ch"],
        "D": ["rdx", "edx", "dx", "dl", "dh"],
        "SP": ["rsp", "esp", "sp", "spl"],
        "BP": ["rbp", "ebp", "bp", "bpl"],
        "SI": ["rsi", "esi", "si", "sil"],
        "DI": ["rdi", "edi", "di", "dil"],
    }
    for n in range(8, 16):
        fam["R%d" % n] = ["r%d" % n, "r%dd" % n, "r%dw" % n, "r%db" % n]
    for n in range(32):
        fam["V%d" % n] = ["xmm%d" % n, "ymm%d" % n, "zmm%d" % n]
    for n in range(8):
        fam["MM%d" % n] = ["mm%d" % n]
        fam["K%d" % n] = ["k%d" % n]
    return fam


def x86_names():
    return [(f, r) for f, rs in x86_families().items() for r in rs]


def a64_names():
    """(family, prefix, name)"""
    out = []
    for p in "wxbhsdqvzp":
        for n in range(32):
            kind = "g" if p in "wx" else ("v" if p in "bhsdqvz" else "p")
            out.append((kind + str(n), p, str(n)))
    out += [("sp", "w", "sp"), ("sp", "x", "sp"), ("zr:w", "w", "zr"), ("zr:x", "x", "zr")]
    return out


def _famkind(f):
    return f.rstrip("0123456789")


def check_x86(px, R, fa, a, fb, b, variant):
    A = a.upper() if variant & 1 else a
    B = b.upper() if variant & 2 else b
    got = bool(guard(px.is_reg_dependend_of, R(name=A), R(name=B), what="is_reg_dependend_of"))
    exp = fa == fb
    if got != exp:
        raise Violation(
            "x86:%s/%s:%s" % (_famkind(fa), _famkind(fb), "missed" if exp else "spurious"),
            "x86 registers %s and %s: dependent=%s, architectural overlap=%s" % (A, B, got, exp),
            observed=got, expected=exp)
    return exp and A != B


def check_a64(pa, R, ea, eb, variant):
    fa, pa_, na = ea
    fb, pb_, nb = eb
    PA = pa_.upper() if variant & 1 else pa_
    NA = na.upper() if variant & 1 else na
    PB = pb_.upper() if variant & 2 else pb_
    NB = nb.upper() if variant & 2 else nb
    if fa.startswith("zr") and fb.startswith("zr"):
        if fa != fb:
            return None  # wzr vs xzr: not asserted
        exp = True
    else:
        exp = fa == fb
    got = bool(guard(pa.is_reg_dependend_of, R(prefix=PA, name=NA), R(prefix=PB, name=NB),
                     what="is_reg_dependend_of"))
    if got != exp:
        raise Violation(
            "a64:%s/%s:%s%s" % (_famkind(fa), _famkind(fb), "missed" if exp else "spurious",
                                ":case" if (NA.lower() == nb and na.lower() == NB.lower()
                                            and (NA != NB)) else ""),
            "AArch64 registers %s%s and %s%s: dependent=%s, architectural overlap=%s" % (
                PA, NA, PB, NB, got, exp),
            observed=got, expected=exp)
    return exp and (PA + NA) != (PB + NB)


def plan(tier, seed):
    shards = []
    nx_ = len(x86_names())
    na_ = len(a64_names())
    for i in range(4):
        shards.append({"isa": "x86", "lo": i * nx_ // 4, "hi": (i + 1) * nx_ // 4})
    for i in range(11):
        shards.append({"isa": "aarch64", "lo": i * na_ // 11, "hi": (i + 1) * na_ // 11})
    shards.append({"isa": "parsed"})
    return shards


def _case(isa, a, b, variant):
    return {"isa": isa, "a": a, "b": b, "variant": variant}


def run_shard(spec):
    from osaca.parser import ParserAArch64, ParserX86ATT
    from osaca.parser.register import RegisterOperand as R

    st = Stats()
    failures = {}

    def fail(case, v):
        if v.bucket not in failures:
            failures[v.bucket] = failure_record(ID, case, v)

    if spec["isa"] == "x86":
        px = ParserX86ATT()
        names = x86_names()
        for (fa, a) in names[spec["lo"]:spec["hi"]]:
            for (fb, b) in names:
                for variant in range(4):
                    case = _case("x86", a, b, variant)
                    try:
                        nt = check_x86(px, R, fa, a, fb, b, variant)
                    except Violation as v:
                        st.evaluations += 1
                        fail(case, v)
                        continue
                    st.record(case, {"nontrivial": nt, "classes": ["x86:alias" if nt else
                                                                   ("x86:same" if fa == fb else "x86:diff")]})
    elif spec["isa"] == "aarch64":
        pa = ParserAArch64()
        names = a64_names()
        for ea in names[spec["lo"]:spec["hi"]]:
            for eb in names:
                for variant in range(4):
                    case = _case("aarch64", list(ea[1:]), list(eb[1:]), variant)
                    try:
                        nt = check_a64(pa, R, ea, eb, variant)
                    except Violation as v:
                        st.evaluations += 1
                        fail(case, v)
                        continue
                    if nt is None:
                        st.classes["a64:zr-width-pair-not-asserted"] += 1
                        continue
                    st.record(case, {"nontrivial": nt, "classes": ["a64:alias" if nt else "a64:other"]})
    else:
        # operands as the real parsers produce them (covers name normalisation: SP, WSP, XZR ...)
        for case in parsed_cases():
            try:
                nt = check_parsed(case)
            except Violation as v:
                st.evaluations += 1
                fail(case, v)
                continue
            st.record(case, {"nontrivial": nt, "classes": ["parsed:" + case["isa"]]})
    return {"stats": st.to_dict(), "failures": list(failures.values()), "exhaustive": True}


def parsed_cases():
    out = []
    xn = x86_names()
    # x86: every family representative pair through the parser, both cases
    reps = [(f, r) for f, r in xn]
    for (fa, a), (fb, b) in itertools.product(reps[:68:1], reps[:68:1]):
        if fa == fb or (hash((a, b)) % 7 == 0 and False):
            out.append({"isa": "x86", "parsed": True, "a": a, "b": b, "variant": 0, "fa": fa, "fb": fb})
            out.append({"isa": "x86", "parsed": True, "a": a, "b": b, "variant": 3, "fa": fa, "fb": fb})
    # AArch64: scalar registers and sp/zr as written in instructions and memory operands
    an = [("g5", "w5"), ("g5", "x5"), ("g6", "x6"), ("sp", "sp"), ("sp", "wsp"), ("zr:x", "xzr"),
          ("zr:w", "wzr"), ("v5", "d5"), ("v5", "q5"), ("v5", "s5"), ("v5", "h5"), ("v5", "b5"),
          ("g29", "x29"), ("g30", "x30"), ("g30", "w30")]
    for (fa, a), (fb, b) in itertools.product(an, an):
        for variant in range(4):
            out.append({"isa": "aarch64", "parsed": True, "a": a, "b": b, "variant": variant,
                        "fa": fa, "fb": fb})
    # base register of a memory operand vs. plain register
    for base in ["sp", "SP", "x5", "X5"]:
        for (fb, b) in an:
            out.append({"isa": "aarch64", "parsed": "mem", "a": base, "b": b, "variant": 0,
                        "fa": "sp" if base.lower() == "sp" else "g5", "fb": fb})
    return out


_P = {}


def _parsers():
    if not _P:
        from osaca.parser import ParserAArch64, ParserX86ATT
        _P["x86"] = ParserX86ATT()
        _P["aarch64"] = ParserAArch64()
    return _P


def check_parsed(case):
    P = _parsers()[case["isa"]]
    a, b, variant = case["a"], case["b"], case["variant"]
    A = a.upper() if variant & 1 else a
    B = b.upper() if variant & 2 else b
    if case["isa"] == "x86":
        line = "xchg %%%s, %%%s" % (A, B)
        ops = guard(P.parse_line, line, 1, what="parse_line").operands
        ra, rb = ops[0], ops[1]
    elif case["parsed"] == "mem":
        line = "ldr x9, [%s, #8]" % a
        ra = guard(P.parse_line, line, 1, what="parse_line").operands[1].base
        rb = guard(P.parse_line, "mov %s, x9" % B, 1, what="parse_line").operands[0]
    else:
        ra = guard(P.parse_line, "mov %s, x9" % A, 1, what="parse_line").operands[0]
        rb = guard(P.parse_line, "mov %s, x9" % B, 1, what="parse_line").operands[0]
    fa, fb = case["fa"], case["fb"]
    if fa.startswith("zr") and fb.startswith("zr") and fa != fb:
        return False
    exp = fa == fb
    got = bool(guard(P.is_reg_dependend_of, ra, rb, what="is_reg_dependend_of"))
    got2 = bool(guard(P.is_reg_dependend_of, rb, ra, what="is_reg_dependend_of"))
    if got != exp or got2 != exp:
        raise Violation(
            "%s:parsed:%s/%s:%s" % (case["isa"], _famkind(fa), _famkind(fb),
                                    "missed" if exp else "spurious"),
            "%s registers written %s and %s (as parsed): dependent=%s/%s, overlap=%s" % (
                case["isa"], A, B, got, got2, exp), observed=[got, got2], expected=exp)
    return exp and A != B


def replay(case):
    from osaca.parser.register import RegisterOperand as R

    if case.get("parsed"):
        return check_parsed(case)
    P = _parsers()[case["isa"]]
    if case["isa"] == "x86":
        fam = {r: f for f, r in x86_names()}
        return check_x86(P, R, fam[case["a"]], case["a"], fam[case["b"]], case["b"], case["variant"])
    look = {(p, n): f for f, p, n in a64_names()}
    ea = (look[tuple(case["a"])],) + tuple(case["a"])
    eb = (look[tuple(case["b"])],) + tuple(case["b"])
    return check_a64(P, R, ea, eb, case["variant"])

LEVEL_TEXT = ("Complete enumeration of the finite register-name domain of both ISAs (every ordered pair, four "
              "case variants, object- and parser-constructed operands) against the architectural partition; "
              "for this finite table exhaustive generated-input testing decides the property outright.")
LEVEL_NOTE = ("Trusted: the hand-written architectural family table in checks/c12.py; names outside it "
              "(segment, control, x87 registers) are not covered.")
TECHNIQUE = "exhaustive enumeration of all register-name pairs against an architectural partition oracle"
