"""C05 - loop-carried dependencies are exactly the cross-iteration dependency cycles."""
from lib import core, deps, env, synth
from lib.core import Stats, Violation, guard, hyp_search

ID = "C05"
LEVEL = "exploration"
WARM = []
RULE = (
    "C03's generated kernels restricted to 2-10 lines (so that the reference DFS over two concatenated "
    "iterations is exhaustive), both ISA flavours, with and without flag dependencies, first line numbers drawn "
    "from {1,4,18,991..1001,1501,4991}; kernels are kept free of memory-carried dependencies (no read-modify-"
    "write memory operands; AArch64 loads and stores through disjoint base registers) - those are C06's. "
    "Oracle: set of winding-number-1 cycles of the reference RAW relation == reported set (soundness and "
    "completeness, each once), latency == sum along the cycle, per-member latencies add up, Summary.LCD == max "
    "(0 if none). Non-trivial: >=2 cycles sharing an instruction, or a cycle with >=2 members, or a self-loop "
    "plus another cycle. Additionally the curated real vocabulary of C03(b) on shipped models (member sets against "
    "the architectural RAW relation, no flag dependencies). Distinct = distinct (ISA db, kernel, flag option, first line)."
)
ASSUMPTIONS = [
    "an edge with two admissible weights may contribute either weight to the cycle latency",
    "the LCD column, summary figure and LCD list are read back from Frontend.full_analysis (the text the CLI "
    "prints) with the positional report parser",
]
MIN_NONTRIVIAL = {"quick": 300, "thorough": 3000}


def lcd_sets(case, dg):
    fl = case.get("first_line", 0)
    lcd = guard(dg.get_loopcarried_dependencies, what="get_loopcarried_dependencies")
    got = {}
    for key, v in lcd.items():
        members = [n.line_number - fl - 1 for n, _ in v["dependencies"]]
        ms = frozenset(members)
        if len(ms) != len(members):
            raise Violation("lcd-member-twice", "an instruction appears twice in one reported cycle", members, None)
        if ms in got:
            raise Violation("lcd-duplicate", "the same cycle is reported twice", sorted(ms), None)
        lat = float(v["latency"])
        if abs(sum(float(l) for _, l in v["dependencies"]) - lat) > 1e-9:
            raise Violation("lcd-sum", "per-member latencies do not add up to the cycle latency",
                            [float(l) for _, l in v["dependencies"]], lat)
        if v["root"].line_number - fl - 1 not in ms:
            raise Violation("lcd-root", "root is not a member of its cycle", v["root"].line_number, sorted(ms))
        if key != "-".join(str(m + fl + 1) for m in sorted(members)) and \
                key != "-".join(str(m + fl + 1) for m in members):
            raise Violation("lcd-key", "dictionary key does not name the member lines", key, sorted(ms))
        got[ms] = lat
    return got


def check_case(case):
    if case.get("kind") == "real5":
        return check_real(case)
    from checks import c03
    from osaca.frontend import Frontend

    kernel, dg, mm, sem = c03.runner().build(case)
    try:
        E, info, f = c03.compare_graph(case, dg)
    except Violation:
        return {"nontrivial": False, "classes": ["skipped-graph-disagreement(C03)"]}
    k2 = case["kernel"] + case["kernel"]
    _, info2 = deps.ref_edges(case, k2)
    if deps.uncertain_pairs(case, info2):
        return {"nontrivial": False, "classes": ["skipped-uncertain-store-load-pair"]}
    got = lcd_sets(case, dg)
    ref = deps.ref_cycles(case)
    tag = case["isa"] + (":line>=1000" if case.get("first_line", 0) + len(case["kernel"]) >= 1000 else "")
    for ms in ref:
        if ms not in got:
            raise Violation("lcd-missing:" + tag, "a cross-iteration dependency cycle is not reported",
                            sorted(map(sorted, got)), sorted(ms))
    for ms in got:
        if ms not in ref:
            raise Violation("lcd-spurious:" + tag, "a reported loop-carried dependency is not a cycle of the "
                            "dependency relation", sorted(ms), sorted(map(sorted, ref)))
        if not any(abs(got[ms] - s) < 1e-9 for s in ref[ms]):
            raise Violation("lcd-latency:" + tag, "cycle latency is not the sum of the latencies along the cycle",
                            got[ms], sorted(ref[ms]))
    # the same kernel with blank lines inside (gaps in the line numbering): same cycles by instruction position
    if len(case["kernel"]) >= 3:
        tl = deps.kernel_text(case).split("\n")
        lead = case.get("first_line", 0)
        gaps = sorted({1 + (lead * 5 + 2 * j + len(case["kernel"])) % (len(case["kernel"]) - 1) for j in range(2)})
        for g in reversed(gaps):
            tl.insert(lead + g, "")
        k2, dg2, _, _ = c03.runner().build(case, text="\n".join(tl))
        byline = {x.line_number: i for i, x in enumerate(k2)}
        lcd2 = guard(dg2.get_loopcarried_dependencies, what="get_loopcarried_dependencies(gaps)")
        got2 = {}
        for v in lcd2.values():
            try:
                ms = frozenset(byline[n.line_number] for n, _ in v["dependencies"])
            except KeyError:
                raise Violation("lcd-gaps:" + case["isa"], "a reported member line is not a line of the kernel",
                                [n.line_number for n, _ in v["dependencies"]], sorted(byline))
            got2[ms] = round(float(v["latency"]), 9)
        if {k: round(v, 9) for k, v in got.items()} != got2:
            raise Violation("lcd-gaps:" + case["isa"], "blank lines inside the kernel (line numbers with gaps) change "
                            "the reported loop-carried dependencies", sorted(map(sorted, got2)), sorted(map(sorted, got)))
    # summary figure via the front end (needs the model file -> rebuilt from the case)
    exp_max = max(got.values()) if got else 0.0
    # full_analysis_dict reads only kernel + graph for the LCD figure
    fe = Frontend.__new__(Frontend)
    fe._machine_model = mm
    fe._arch = "syn"
    fe._filename = "x"
    d = guard(fe.full_analysis_dict, kernel, dg, what="full_analysis_dict")
    if abs(float(d["Summary"]["LCD"]) - exp_max) > 1e-9:
        raise Violation("lcd-summary:" + tag, "Summary.LCD is not the maximum cycle latency", d["Summary"]["LCD"],
                        exp_max)
    # the LCD column of the combined view marks the members of one cycle attaining the maximum, each with its
    # edge latency (a member contributing 0 cycles is still a member)
    from lib import report
    lcd_raw = dg.get_loopcarried_dependencies()
    cp_k = guard(dg.get_critical_path, what="get_critical_path")
    # (the complete text report, as the CLI prints it: combined view + list of loop-carried dependencies)
    text = guard(fe.full_analysis, kernel, dg, ignore_unknown=True, what="full_analysis")
    try:
        rep = report.parse(text)
    except report.ReportError as e:
        raise Violation("report-format", "text report cannot be parsed back: %s" % e, text[-400:], None)
    listed = sorted(round(float(l["latency"]), 6) for l in rep["lcds"])
    if listed != sorted(round(v, 6) for v in got.values()):
        raise Violation("lcd-list:" + tag, "the list of loop-carried dependencies in the text report does not show "
                        "every cycle with its latency", listed, sorted(round(v, 6) for v in got.values()))
    fl = case.get("first_line", 0)
    marked = {l["lineno"] - fl - 1: float(l["lcd"]) for l in rep["lines"] if l["lcd"] != ""}
    cands = [{n.line_number - fl - 1: float(lat) for n, lat in v["dependencies"]} for v in lcd_raw.values()
             if abs(float(v["latency"]) - exp_max) < 1e-9]
    if (cands and marked not in cands) or (not cands and marked):
        zero = any(any(x == 0.0 for x in c.values()) for c in cands)
        raise Violation("lcd-column:%s%s" % (tag, ":zero-latency-member" if zero else ""),
                        "the LCD column does not mark exactly the members of one cycle attaining the maximum",
                        {str(k): v for k, v in sorted(marked.items())},
                        [{str(k): v for k, v in sorted(c.items())} for c in cands])
    if rep["summary"] is not None and abs(float(rep["summary"]["lcd"]) - exp_max) > 1e-9:
        raise Violation("lcd-summary-row:" + tag, "LCD figure of the summary row", rep["summary"]["lcd"], exp_max)
    cyc = list(ref)
    share = any(a & b for i, a in enumerate(cyc) for b in cyc[i + 1:])
    multi = any(len(c) >= 2 for c in cyc)
    selfplus = any(len(c) == 1 for c in cyc) and len(cyc) >= 2
    cl = [case["isa"], "cycles=%s" % (len(cyc) if len(cyc) < 4 else "4+")]
    if share:
        cl.append("cycles-share-instruction")
    if multi:
        cl.append("cycle>=2-members")
    if case.get("first_line", 0) + len(case["kernel"]) >= 1000:
        cl.append("line-numbers>=1000")
    if case["flagdeps"]:
        cl.append("flagdeps")
    if any(any(x == 0.0 for x in c.values()) for c in cands):
        cl.append("max-cycle-has-zero-latency-member")
    return {"nontrivial": share or multi or selfplus, "classes": cl,
            "key": [case["forms"], case["kernel"], case["flagdeps"], case.get("first_line", 0)],
            "sample": {"isa": case["isa"], "first_line": case.get("first_line", 0) + 1,
                       "kernel": deps.kernel_text(case).strip().split("\n"),
                       "cycles": sorted([sorted(c), sorted(ref[c])] for c in ref)}}


def ref_cycles_real(case):
    """winding-number-1 cycles of the curated-vocabulary reference relation (member position sets)"""
    from checks import c03_real

    n = len(case["lines"])
    E2, unsure = c03_real.ref_edges(dict(case, lines=case["lines"] + case["lines"]))
    adj = {}
    for (a, b) in E2:
        adj.setdefault(a, []).append(b)
    res = set()

    def dfs(start, node, path):
        for b in adj.get(node, ()):
            if b == start + n:
                res.add(frozenset(x % n for x in path))
            elif b < start + n and b not in path:
                dfs(start, b, path + [b])

    for s_ in range(n):
        dfs(s_, s_, [s_])
    return res


def check_real(case):
    """curated real vocabulary on a shipped model: reported cycles == cycles of the architectural RAW relation"""
    from checks import c03_real
    from osaca.parser import ParserAArch64, ParserX86ATT
    from osaca.semantics import ArchSemantics, KernelDG, MachineModel

    arch = case["arch"]
    if arch not in c03_real._M:
        if len(c03_real._M) > 2:
            c03_real._M.clear()
        mm = guard(MachineModel, arch=arch, what="MachineModel")
        c03_real._M[arch] = (mm, guard(ArchSemantics, mm, what="ArchSemantics"))
    mm, sem = c03_real._M[arch]
    isa = case["isa"]
    parser = ParserX86ATT() if isa == "x86" else ParserAArch64()
    text = "\n".join("%s %s" % (l["mn"], ", ".join(o["t"] for o in l["ops"])) for l in case["lines"]) + "\n"
    kernel = guard(parser.parse_file, text, what="parse_file")
    guard(sem.add_semantics, kernel, what="add_semantics")
    dg = guard(KernelDG, kernel, parser, mm, sem, timeout=-1, flag_dependencies=False, what="KernelDG")
    got = lcd_sets(dict(case, first_line=0), dg)
    ref = ref_cycles_real(case)
    tag = "real:" + isa
    for ms in ref:
        if ms not in got:
            raise Violation("lcd-missing:" + tag, "a cross-iteration dependency cycle is not reported (%s on %s)" % (
                [text.split("\n")[i] for i in sorted(ms)], arch), sorted(map(sorted, got)), sorted(ms))
    for ms in got:
        if ms not in ref:
            raise Violation("lcd-spurious:" + tag, "a reported loop-carried dependency is not a cycle of the "
                            "dependency relation (%s on %s)" % ([text.split("\n")[i] for i in sorted(ms)], arch),
                            sorted(ms), sorted(map(sorted, ref)))
    cyc = list(ref)
    nt = any(a & b for i, a in enumerate(cyc) for b in cyc[i + 1:]) or any(len(c) >= 2 for c in cyc)
    return {"nontrivial": nt, "classes": ["real", "real:" + arch, "cycles=%s" % (len(cyc) if len(cyc) < 4 else "4+")],
            "key": [arch, text], "sample": {"arch": arch, "kernel": text.strip().split("\n"),
                                            "cycles": sorted(sorted(c) for c in cyc)}}


def plan(tier, seed):
    n = {"quick": 700, "thorough": 8000}[tier]
    shards = [{"kind": "synthetic", "isa": "x86" if i % 2 == 0 else "aarch64", "seed": seed * 1000 + 500 + i,
               "n": n, "max_len": 10 if i % 4 < 2 else 6} for i in range(12)]
    nr = {"quick": 250, "thorough": 4000}[tier]
    xa, aa = (["zen1", "spr", "zen3", "hsw"], ["n1", "tx2", "a64fx", "v2"]) if tier == "quick" else \
        (env.X86_ARCHS, env.A64_ARCHS)
    shards += [{"kind": "real", "isa": "x86", "archs": xa[0::2], "seed": seed * 1000 + 550, "n": nr},
               {"kind": "real", "isa": "x86", "archs": xa[1::2], "seed": seed * 1000 + 551, "n": nr},
               {"kind": "real", "isa": "aarch64", "archs": aa[0::2], "seed": seed * 1000 + 552, "n": nr},
               {"kind": "real", "isa": "aarch64", "archs": aa[1::2], "seed": seed * 1000 + 553, "n": nr}]
    return shards


def run_shard(spec):
    stats = Stats()
    if spec["kind"] == "real":
        from checks import c03_real
        from hypothesis import strategies as st_

        strat = c03_real.cases(spec["isa"], spec["archs"]).map(lambda c: dict(c, flagdeps=False, kind="real5"))
        failures = hyp_search(ID, strat, check_case, stats, seed=spec["seed"], max_examples=spec["n"])
        return {"stats": stats.to_dict(), "failures": failures}
    strat = deps.dep_cases(isa=spec["isa"], max_len=spec["max_len"], big_lines=True, lcd_safe=True)
    failures = hyp_search(ID, strat, check_case, stats, seed=spec["seed"], max_examples=spec["n"])
    from checks import c03
    c03.runner().close()
    return {"stats": stats.to_dict(), "failures": failures}


def replay(case):
    return check_case(case)


LEVEL_TEXT = ("Randomised differential testing of the reported loop-carried dependencies against an exhaustive DFS "
              "enumeration of winding-number-1 cycles over the independently computed dependency relation of two "
              "concatenated iterations (kernels bounded to 10 lines so the enumeration is complete per case).")
LEVEL_NOTE = "Trusted: R-dep and the cycle enumerator in lib/deps.py; memory-carried cycles are excluded by construction."
TECHNIQUE = "property-based differential testing against an independent cycle enumerator"
