"""C09 - x86 AT&T parser recovers every line and operand exactly as written."""
from lib import roundtrip

ID = "C09"
LEVEL = "exploration"
WARM = []
RULE = (
    "Hypothesis-generated files of 1-14 lines mixing instruction lines (rendered from random ASTs: 0-4 operands; "
    "all GPR widths and xmm/ymm/zmm0-31 in lower/upper case; immediates decimal/hex, negative, up to 64 bit; "
    "label operands; memory references over all 7 non-empty displacement/base/index combinations, scales "
    "1/2/4/8 and omitted, symbolic displacements, %rip base) with generated layout (spaces/tabs around separators "
    "and inside parentheses, trailing # or // comment) and blank lines, comments, labels (named/numeric, with "
    "comment), directives. Oracle: render->parse round trip (one record per non-blank line in order, 1-based line "
    "number, verbatim text, exactly one classification, mnemonic and every operand field equal to the AST). "
    "Non-trivial: file containing an instruction with >=3 operands, a memory operand with >=2 components, or an "
    "immediate outside 0..255. Distinct = distinct file text."
)
ASSUMPTIONS = [
    "displacement-only memory operands are generated with non-negative displacements (absolute addresses)",
    "numeric local label references (1f/2b) are not generated as operands: the property speaks of labels as written",
]
MIN_NONTRIVIAL = {"quick": 1500, "thorough": 20000}
plan, run_shard, replay = roundtrip.make_check(ID, "x86")
LEVEL_TEXT = ("Randomised render-then-parse round trip (Hypothesis, 16 seeded shards) over a grammar-directed "
              "generator of AT&T lines and files; evidence proportional to the number of lines explored.")
LEVEL_NOTE = "Trusted: the renderer/AST in lib/asmgen.py and the canonicalisation of parsed operands in lib/roundtrip.py."
TECHNIQUE = "property-based round-trip testing (render random instruction ASTs, parse, compare field by field)"
