"""C03(b): curated vocabulary of real x86 / AArch64 instructions with architecturally known roles, on shipped models.

Only instructions whose roles are architecturally unambiguous and for which OSACA ships ISA semantics are listed
(the property lets the documented default rule govern forms without an ISA entry, so e.g. neg/xchg/jcc/cbnz are out).
Memory operands go through address registers no instruction of the vocabulary writes, with store and load
displacements from disjoint residue classes, so no store-to-load edge is possible here (C06's domain)."""
from hypothesis import strategies as st

from lib import core, env
from lib.core import Stats, Violation, guard, hyp_search

ID = "C03"
ALLF = ["CF", "OF", "SF", "ZF", "AF", "PF"]
NOCF = ["OF", "SF", "ZF", "AF", "PF"]
NZCV = ["N", "Z", "C", "V"]

# (mnemonic, operand kinds, roles per operand 's' 'd' 'sd', flags read, flags written)
X86 = [
    ("addq", ["g", "g"], ["s", "sd"], [], ALLF), ("subq", ["g", "g"], ["s", "sd"], [], ALLF),
    ("andq", ["g", "g"], ["s", "sd"], [], ALLF), ("orq", ["g", "g"], ["s", "sd"], [], ALLF),
    ("addl", ["e", "e"], ["s", "sd"], [], ALLF), ("subl", ["e", "e"], ["s", "sd"], [], ALLF),
    ("addq", ["i", "g"], ["s", "sd"], [], ALLF), ("subq", ["i", "g"], ["s", "sd"], [], ALLF),
    ("xorq", ["g", "g"], ["s", "sd"], [], ALLF),
    ("xorq", ["i", "g"], ["s", "sd"], [], ALLF), ("andq", ["i", "g"], ["s", "sd"], [], ALLF),
    ("orq", ["i", "g"], ["s", "sd"], [], ALLF), ("testq", ["i", "g"], ["s", "s"], [], ALLF),
    ("xorq", ["mL", "g"], ["s", "sd"], [], ALLF), ("addq", ["mL", "g"], ["s", "sd"], [], ALLF),
    ("andq", ["mL", "g"], ["s", "sd"], [], ALLF), ("subq", ["mL", "g"], ["s", "sd"], [], ALLF),
    ("movq", ["g", "g"], ["s", "d"], [], []), ("movl", ["e", "e"], ["s", "d"], [], []),
    ("movq", ["i", "g"], ["s", "d"], [], []),
    ("movq", ["mL", "g"], ["s", "d"], [], []), ("movq", ["g", "mS"], ["s", "d"], [], []),
    ("leaq", ["mA", "g"], ["s", "d"], [], []),
    ("incq", ["g"], ["sd"], [], NOCF), ("decq", ["g"], ["sd"], [], NOCF),
    ("cmpq", ["g", "g"], ["s", "s"], [], ALLF), ("testq", ["g", "g"], ["s", "s"], [], ALLF),
    ("cmpq", ["i", "g"], ["s", "s"], [], ALLF),
    ("cmovneq", ["g", "g"], ["s", "sd"], ["ZF"], []), ("cmovbq", ["g", "g"], ["s", "sd"], ["CF"], []),
    ("adcq", ["g", "g"], ["s", "sd"], ["CF"], ALLF),
    ("imulq", ["g", "g"], ["s", "sd"], [], None),
    ("vaddpd", ["x", "x", "x"], ["s", "s", "d"], [], []), ("vmulpd", ["y", "y", "y"], ["s", "s", "d"], [], []),
    ("vfmadd231pd", ["x", "x", "x"], ["s", "s", "sd"], [], []),
    ("vfmadd231pd", ["y", "y", "y"], ["s", "s", "sd"], [], []),
    ("addpd", ["x", "x"], ["s", "sd"], [], []), ("mulpd", ["x", "x"], ["s", "sd"], [], []),
    ("vmovapd", ["mL", "y"], ["s", "d"], [], []), ("vmovapd", ["y", "mS"], ["s", "d"], [], []),
    ("vaddpd", ["mL", "x", "x"], ["s", "s", "d"], [], []),
    ("vmovapd", ["x", "x"], ["s", "d"], [], []),
]
A64 = [
    ("add", ["x", "x", "x"], ["d", "s", "s"], [], []), ("sub", ["x", "x", "x"], ["d", "s", "s"], [], []),
    ("add", ["x", "x", "i"], ["d", "s", "s"], [], []), ("sub", ["x", "x", "i"], ["d", "s", "s"], [], []),
    ("add", ["w", "w", "w"], ["d", "s", "s"], [], []),
    ("adds", ["x", "x", "x"], ["d", "s", "s"], [], NZCV), ("subs", ["x", "x", "i"], ["d", "s", "s"], [], NZCV),
    ("cmp", ["x", "x"], ["s", "s"], [], NZCV), ("cmp", ["x", "i"], ["s", "s"], [], NZCV),
    ("csel", ["x", "x", "x", "cc"], ["d", "s", "s", "s"], None, []),
    ("mul", ["x", "x", "x"], ["d", "s", "s"], [], []), ("madd", ["x", "x", "x", "x"], ["d", "s", "s", "s"], [], []),
    ("mov", ["x", "x"], ["d", "s"], [], []), ("mov", ["x", "i"], ["d", "s"], [], []),
    ("fadd", ["d", "d", "d"], ["d", "s", "s"], [], []), ("fmul", ["d", "d", "d"], ["d", "s", "s"], [], []),
    ("fmadd", ["d", "d", "d", "d"], ["d", "s", "s", "s"], [], []),
    ("fmla", ["v", "v", "v"], ["sd", "s", "s"], [], []),
    ("fadd", ["v", "v", "v"], ["d", "s", "s"], [], []),
    ("ldr", ["x", "mL"], ["d", "s"], [], []), ("ldr", ["d", "mL"], ["d", "s"], [], []),
    ("ldr", ["q", "mL"], ["d", "s"], [], []),
    ("str", ["x", "mS"], ["s", "d"], [], []), ("str", ["d", "mS"], ["s", "d"], [], []),
    ("ldp", ["x", "x", "mL"], ["d", "d", "s"], [], []), ("stp", ["x", "x", "mS"], ["s", "s", "d"], [], []),
    ("ldr", ["x", "mPost"], ["d", "s"], [], []), ("ldr", ["d", "mPre"], ["d", "s"], [], []),
    ("ldr", ["d", "mPost"], ["d", "s"], [], []), ("ldr", ["q", "mPost"], ["d", "s"], [], []),
    ("str", ["d", "mPost"], ["s", "d"], [], []),
]
X_G = {"A": ["rax", "eax"], "B": ["rbx", "ebx"], "C": ["rcx", "ecx"], "D": ["rdx", "edx"], "R8": ["r8", "r8d"],
       "BP": ["rbp", "ebp"]}


@st.composite
def operand(draw, isa, kind, line):
    if isa == "x86":
        if kind in ("g", "e"):
            f = draw(st.sampled_from(sorted(X_G)))
            return {"t": "%" + X_G[f][0 if kind == "g" else 1], "fam": f}
        if kind in ("x", "y"):
            n = draw(st.integers(0, 3))
            return {"t": "%%%smm%d" % (kind, n), "fam": "V%d" % n}
        if kind == "i":
            return {"t": "$%d" % draw(st.sampled_from([1, 8, 16])), "fam": None}
        base = draw(st.sampled_from(["rsi", "rdi"]))
        off = {"mL": 4 + 16 * draw(st.integers(0, 3)), "mS": 8 + 16 * draw(st.integers(0, 3)),
               "mA": 2 + 16 * draw(st.integers(0, 3))}[kind]
        if kind == "mA" and draw(st.booleans()):
            f = draw(st.sampled_from(sorted(X_G)))
            return {"t": "%d(%%%s,%%%s,8)" % (off, base, X_G[f][0]), "fam": None, "addr": [f]}
        return {"t": "%d(%%%s)" % (off, base), "fam": None, "addr": []}
    if kind in ("x", "w"):
        n = draw(st.integers(1, 5))
        return {"t": "%s%d" % (kind, n), "fam": "g%d" % n}
    if kind in ("d", "q"):
        n = draw(st.integers(1, 4))
        return {"t": "%s%d" % (kind, n), "fam": "v%d" % n}
    if kind == "v":
        n = draw(st.integers(1, 4))
        return {"t": "v%d.2d" % n, "fam": "v%d" % n}
    if kind == "i":
        return {"t": "#%d" % draw(st.sampled_from([1, 8, 16])), "fam": None}
    if kind == "cc":
        return {"t": draw(st.sampled_from(["ne", "eq", "lt", "hi"])), "fam": None}
    if kind == "mL":
        return {"t": "[x10, #%d]" % (4 * 8 + 64 * draw(st.integers(0, 3))), "fam": None, "addr": []}
    if kind == "mS":
        return {"t": "[x10, #%d]" % (16 + 64 * draw(st.integers(0, 3))), "fam": None, "addr": []}
    # write-back base: often a register number that is also used for data registers of the other register file
    nb = draw(st.sampled_from([11, 1, 2, 3]))
    if kind == "mPost":
        return {"t": "[x%d], #8" % nb, "fam": None, "addr": [], "wb": "g%d" % nb}
    return {"t": "[x%d, #16]!" % nb, "fam": None, "addr": [], "wb": "g%d" % nb}


@st.composite
def cases(draw, isa, archs):
    table = X86 if isa == "x86" else A64
    n = draw(st.integers(2, 12))
    lines = []
    for i in range(n):
        mn, kinds, roles, fr, fw = draw(st.sampled_from(table))
        ops = [draw(operand(isa, k, i)) for k in kinds]
        if mn in ("xorq", "subq") and kinds == ["g", "g"] and draw(st.integers(0, 2)) == 0:
            ops[1] = dict(ops[0])
        lines.append({"mn": mn, "kinds": kinds, "roles": roles, "fr": fr, "fw": fw, "ops": ops})
    return {"kind": "real", "isa": isa, "arch": draw(st.sampled_from(archs)), "lines": lines,
            "flagdeps": draw(st.booleans())}


def info(case, ln):
    R, W, WB = set(), set(), set()
    # dependency-breaking zero idioms: xor / sub of a register with itself write without reading
    same = len(ln["ops"]) == 2 and ln["ops"][0]["t"] == ln["ops"][1]["t"] and ln["mn"] in ("xorq", "subq", "subl")
    for o, r in zip(ln["ops"], ln["roles"]):
        if o.get("fam"):
            if "s" in r and not same:
                R.add(o["fam"])
            if "d" in r:
                W.add(o["fam"])
        for a in o.get("addr", []):
            R.add(a)
        if "addr" in o:
            R.add("addrbase")
        if o.get("wb"):
            R.add(o["wb"])
            WB.add(o["wb"])
    fr = ln["fr"]
    fw = ln["fw"]
    return {"R": R, "W": W, "WB": WB, "RF": set(fr) if fr is not None else None,
            "WF": set(fw) if fw is not None else None}


def ref_edges(case):
    infos = [info(case, l) for l in case["lines"]]
    n = len(infos)
    E = set()
    unsure = set()
    for a in range(n):
        ia = infos[a]
        for r in sorted(ia["W"] | ia["WB"]):
            for b in range(a + 1, n):
                ib = infos[b]
                if r in ib["R"] or r in ib["WB"]:
                    E.add((a, b))
                if r in ib["W"] or r in ib["WB"]:
                    break
        if case["flagdeps"]:
            if ia["WF"] is None:
                # flags partly undefined after this instruction: pairs from here to flag readers are not asserted
                for b in range(a + 1, n):
                    if infos[b]["RF"] is None or infos[b]["RF"]:
                        unsure.add((a, b))
                continue
            for fl in sorted(ia["WF"]):
                for b in range(a + 1, n):
                    ib = infos[b]
                    if ib["RF"] is None:
                        unsure.add((a, b))  # csel etc.: which flags the condition reads is not asserted...
                        if ib["WF"] and fl in ib["WF"]:
                            break
                        continue
                    if fl in ib["RF"]:
                        E.add((a, b))
                    if ib["WF"] is None:
                        for c in range(b + 1, n):
                            unsure.add((a, c))
                        break
                    if fl in ib["WF"]:
                        break
    # condition-code readers: an edge from the closest full flag writer is required (any flag)
    if case["flagdeps"]:
        for b in range(n):
            if infos[b]["RF"] is None:
                for a in range(b - 1, -1, -1):
                    if infos[a]["WF"]:
                        E.add((a, b))
                        unsure.discard((a, b))
                        break
                    if infos[a]["WF"] is None:
                        break
    return E, unsure


_M = {}


def check_case(case):
    from osaca.parser import ParserAArch64, ParserX86ATT
    from osaca.semantics import ArchSemantics, KernelDG, MachineModel

    arch = case["arch"]
    if arch not in _M:
        if len(_M) > 2:
            _M.clear()
        mm = guard(MachineModel, arch=arch, what="MachineModel")
        _M[arch] = (mm, guard(ArchSemantics, mm, what="ArchSemantics"))
    mm, sem = _M[arch]
    isa = case["isa"]
    parser = ParserX86ATT() if isa == "x86" else ParserAArch64()
    text = "\n".join("%s %s" % (l["mn"], ", ".join(o["t"] for o in l["ops"])) for l in case["lines"]) + "\n"
    kernel = guard(parser.parse_file, text, what="parse_file")
    guard(sem.add_semantics, kernel, what="add_semantics")
    dg = guard(KernelDG, kernel, parser, mm, sem, timeout=-1, flag_dependencies=case["flagdeps"], what="KernelDG")
    got = {(int(a) - 1, int(b) - 1) for a, b in dg.dg.edges() if a == int(a)}
    E, unsure = ref_edges(case)
    for (a, b) in sorted(E - got):
        la, lb = case["lines"][a], case["lines"][b]
        raise Violation("real-missing:%s:%s->%s" % (isa, la["mn"], lb["mn"]),
                        "no edge from %r to %r although the latter reads what the former writes (%s)" % (
                            text.split("\n")[a], text.split("\n")[b], arch), sorted(got), [a, b])
    for (a, b) in sorted(got - E - unsure):
        la, lb = case["lines"][a], case["lines"][b]
        raise Violation("real-extra:%s:%s->%s" % (isa, la["mn"], lb["mn"]),
                        "edge from %r to %r without a read-after-write relation (%s, flag deps %s)" % (
                            text.split("\n")[a], text.split("\n")[b], arch, case["flagdeps"]), [a, b], sorted(E))
    infos = [info(case, l) for l in case["lines"]]
    kill = False
    for a in range(len(infos)):
        for r in infos[a]["W"]:
            seen_w = False
            for b in range(a + 1, len(infos)):
                if seen_w and r in infos[b]["R"]:
                    kill = True
                if r in infos[b]["W"]:
                    seen_w = True
    return {"nontrivial": bool(E) and kill, "classes": ["real", "real:" + isa, "real:" + arch,
                                                        "flagdeps" if case["flagdeps"] else "noflags"],
            "key": [arch, text, case["flagdeps"]],
            "sample": {"arch": arch, "kernel": text.strip().split("\n"), "flagdeps": case["flagdeps"],
                       "edges": sorted(map(list, E))}}


def plan(tier, seed):
    n = {"quick": 150, "thorough": 5000}[tier]
    return [{"kind": "real", "isa": "x86", "archs": ["zen1", "spr"], "seed": seed * 1000 + 350, "n": n},
            {"kind": "real", "isa": "aarch64", "archs": ["n1", "tx2"], "seed": seed * 1000 + 351, "n": n},
            {"kind": "real", "isa": "x86", "archs": ["zen3", "hsw"], "seed": seed * 1000 + 352, "n": n},
            {"kind": "real", "isa": "aarch64", "archs": ["a64fx", "v2"], "seed": seed * 1000 + 353, "n": n}]


def run_shard(spec):
    stats = Stats()
    failures = hyp_search(ID, cases(spec["isa"], spec["archs"]), check_case, stats, seed=spec["seed"],
                          max_examples=spec["n"])
    return {"stats": stats.to_dict(), "failures": failures}
