"""C11 - kernel selection is exact and non-instruction lines are transparent."""
from hypothesis import strategies as st

from lib import cli, core, corpus, env, report
from lib.core import Stats, Violation, guard, hyp_search

ID = "C11"
LEVEL = "exploration"
WARM = None
RULE = (
    "Hypothesis-generated files = prologue ++ start marker ++ body ++ end marker ++ epilogue, both ISAs: body = 1-12 "
    "instruction lines of a shipped kernel with 0-2 look-alikes inserted; prologue/epilogue = 0-4 instruction lines incl. decoys (mov of another "
    "value or into another register, marker mov without .byte, .byte with other values); marker styles: bytes on "
    "one line, on separate lines, OSACA-BEGIN/OSACA-END comments, with trailing comments; leading blank lines so "
    "that line numbers reach 5000; --lines strings over the body's line set rendered with ',', 'a-b', 'a:b', entries in ascending, rotated "
    "or descending order; noise "
    "(comment/label/directive/blank lines) inserted into the body. Oracle: reduce_to_section returns exactly the "
    "body records; get_line_range equals the reference expansion; the parsed-back analyses (per-instruction "
    "pressure, CP/LCD cells keyed by instruction order, summary row) are identical for the marked file, the same "
    "file with --lines naming the body, the body alone, and the body with noise. Non-trivial: prologue and epilogue "
    "both contain a decoy, or the --lines string mixes a range and a single number, or noise sits between two "
    "instructions. Distinct = distinct file text."
)
ASSUMPTIONS = [
    "noise directives are not .byte lines (a .byte after a decoy mov would form a real marker)",
    "bodies come from the shipped kernels so that every instruction is known to the model used",
]
MIN_NONTRIVIAL = {"quick": 90, "thorough": 480}

DECOYS = {
    "x86": ["movl $111, %ecx", "movl $112, %ebx", "movl $111, %ebx", "movl $222, %ebx", "movq $111, %rbx",
            ".byte 100,103,145", "movl $111, %ebx\n.byte 1,2,3", "movl $111, %ebx\n.align 16",
            # right marker bytes after a mov of another value / into another register
            "movl $112, %ebx\n.byte 100,103,144", "movl $111, %ecx\n.byte 100,103,144",
            "movl $221, %ebx\n.byte 100,103,144"],
    "aarch64": ["mov x2, #111", "mov x1, #112", "mov x1, #111", "mov x1, #222", "mov w1, #111",
                ".byte 213,3,32,30", "mov x1, #111\n.byte 1,2,3,4", "mov x1, #111\n.align 4",
                "mov x1, #112\n.byte 213,3,32,31", "mov x2, #111\n.byte 213,3,32,31",
                "mov x1, #221\n.byte 213,3,32,31"],
}
PLAIN = {"x86": ["xorl %eax, %eax", "addq $8, %rsi", "vaddpd %xmm1, %xmm2, %xmm3"],
         "aarch64": ["add x3, x3, #8", "mov x9, x10", "fadd d1, d2, d3"]}


def markers(isa, style):
    if isa == "x86":
        mv = ("movl $111, %ebx", "movl $222, %ebx")
        by = "100,103,144"
        c = "#"
    else:
        mv = ("mov x1, #111", "mov x1, #222")
        by = "213,3,32,31"
        c = "//"
    if style == "comment":
        return ["%s OSACA-BEGIN" % c], ["%s OSACA-END" % c]
    if style == "oneline":
        return [mv[0], ".byte " + by], [mv[1], ".byte " + by]
    if style == "oneline-commented":
        return [mv[0] + "  %s START" % c, ".byte " + by + "  %s START" % c], [mv[1] + " %s END" % c,
                                                                              ".byte " + by + " %s END" % c]
    sep = [".byte " + b for b in by.split(",")]
    return [mv[0]] + sep, [mv[1]] + sep


# scalar integer x86 code with hexadecimal numbers: no register name in it tells the ISA apart (files of this kind
# are analysed without --arch: the ISA is guessed, found wrong on parsing, and the other parser takes over)
GPR_ONLY = ["movq 0x10(%rsi), %rcx", "addq $0x18, %rcx", "imulq %rcx, %rdx", "movq %rdx, 0x20(%rdi)", "addq $8, %rsi",
            "subq $1, %r9", "leaq 0x8(%rsi,%rcx,8), %r10", "cmpq %r9, %rdx", "xorl %eax, %eax", "incq %r11"]


@st.composite
def cases(draw, isa, archs, kernels):
    name, _, lines = draw(st.sampled_from(kernels))
    n = draw(st.integers(1, min(12, len(lines))))
    start = draw(st.integers(0, len(lines) - n))
    body = [l.strip() for l in lines[start:start + n]]
    body = [l for l in body if not l.startswith(".byte")]
    if not body or body[0].startswith("."):
        body = ["nop"] + body if isa == "x86" else ["mov x9, x10"] + body
    force_arch = None
    if isa == "aarch64" and draw(st.integers(0, 7)) == 0:
        # the one shipped instruction with alternative port assignments (a64fx smlal) as first kernel line, with
        # instructions that make the second alternative the better one
        name, force_arch = "a64fx-alternatives", "a64fx"
        body = ["smlal v0.2d, v1.2s, v2.2s"] + [draw(st.sampled_from(
            ["dup v3.2d, v4.d[0]", "dup v5.2d, v6.d[0]", "dup v10.2d, v11.d[0]", "fadd v7.2d, v8.2d, v9.2d",
             "fadd v0.2d, v0.2d, v7.2d"])) for _ in range(draw(st.integers(3, 7)))]
    noarch = isa == "x86" and draw(st.integers(0, 4)) == 0
    if noarch:
        name = "gpr-only"
        body = [draw(st.sampled_from(GPR_ONLY)) for _ in range(draw(st.integers(2, 8)))]

    def side():
        out = []
        for _ in range(draw(st.integers(0, 4))):
            pool = DECOYS[isa] + PLAIN[isa] + PLAIN[isa]
            if noarch:
                pool = [d for d in pool if "xmm" not in d] + GPR_ONLY[:4]
            out.append(draw(st.sampled_from(pool)))
        return out

    pro, epi = side(), side()
    # look-alike mov-immediates also inside the kernel (never as its first line: a .byte line directly after the
    # start marker's bytes would belong to the marker; never a complete marker)
    inner = [d for d in DECOYS[isa] if not d.startswith(".byte")]
    # (a second look-alike is never put between the lines of the first: a marker mov slipped between another mov
    # and its .byte line would make a complete, real marker)
    chunks = [[l] for l in body]
    for _ in range(draw(st.sampled_from([0, 0, 1, 2]))):
        pos = draw(st.integers(1, len(chunks)))
        chunks[pos:pos] = [draw(st.sampled_from(inner)).split("\n")]
    body = [l for ch in chunks for l in ch]
    # a decoy that ends in a bare marker mov must not be followed directly by a .byte line of the real marker
    style = draw(st.sampled_from(["oneline", "separate", "comment", "oneline-commented"]))
    if pro and pro[-1].split("\n")[-1].startswith(("movl $111, %ebx", "movl $222, %ebx", "mov x1, #111", "mov x1, #222")):
        pro.append(PLAIN[isa][0])
    # line-splitting of the --lines string
    cuts = sorted(draw(st.sets(st.integers(1, max(1, len(body) - 1)), max_size=3))) if len(body) > 1 else []
    seps = [draw(st.sampled_from(["-", ":"])) for _ in range(len(cuts) + 1)]
    noise = []
    for _ in range(draw(st.integers(0, 4))):
        noise.append([draw(st.integers(0, len(body))), draw(st.sampled_from(
            ["# noise" if isa == "x86" else "// noise", ".Lnoise%d:" % draw(st.integers(0, 3)), ".p2align 4", "",
             "   "]))])
    return {"isa": isa, "arch": force_arch or draw(st.sampled_from(archs)), "kernel": name, "body": body, "pro": pro, "epi": epi,
            "order": draw(st.sampled_from([0, 0, 1, 2, 3, 5])), "noarch": noarch,
            "formfeed": draw(st.integers(0, 3)) == 0,
            "holes": draw(st.lists(st.integers(0, 20), max_size=3)) if draw(st.integers(0, 2)) == 0 else [],
            "style": style, "blank": draw(st.sampled_from([0, 0, 1, 3, 996, 1200, 4900])),
            "cuts": cuts, "seps": seps, "noise": noise, "fixed": draw(st.booleans())}


def ref_line_range(s):
    out = []
    for part in s.replace(":", "-").split(","):
        if "-" in part:
            a, b = part.split("-")
            out += list(range(int(a), int(b) + 1))
        else:
            out.append(int(part))
    return out


def check_case(case):
    import osaca.osaca as oo
    from osaca.parser import ParserAArch64, ParserX86ATT
    from osaca.semantics import reduce_to_section

    isa = case["isa"]
    sm, em = markers(isa, case["style"])
    # safety net of the generator: a complete marker inside prologue, body or epilogue is another file than intended
    mv_ = ("movl $111, %ebx", "movl $222, %ebx") if isa == "x86" else ("mov x1, #111", "mov x1, #222")
    by_ = ".byte 100,103,144" if isa == "x86" else ".byte 213,3,32,31"
    for part in (case["body"], [x for d in case["pro"] for x in d.split("\n")],
                 [x for d in case["epi"] for x in d.split("\n")]):
        if any(part[i].strip() in mv_ and part[i + 1].strip() == by_ for i in range(len(part) - 1)):
            return {"nontrivial": False, "classes": ["skipped-generated-part-contains-a-real-marker"],
                    "excluded": {"generated-part-contains-a-real-marker": 1}}
    pro_lines = [x for d in case["pro"] for x in d.split("\n")]
    epi_lines = [x for d in case["epi"] for x in d.split("\n")]
    # a page-break line (form feed, as in hand-written .S files) is one blank line like any other
    ff = ["\f"] if case.get("formfeed") else []
    lines = ff + [""] * case["blank"] + pro_lines + sm + case["body"] + em + epi_lines
    first_body = len(ff) + case["blank"] + len(pro_lines) + len(sm) + 1  # 1-based
    body_nos = list(range(first_body, first_body + len(case["body"])))
    code = "\n".join(lines) + "\n"
    parser = ParserX86ATT() if isa == "x86" else ParserAArch64()
    parsed = guard(parser.parse_file, code, what="parse_file")
    sect = guard(reduce_to_section, parsed, isa, what="reduce_to_section")
    got_nos = [x.line_number for x in sect]
    tag = "%s:%s" % (isa, case["style"])
    if got_nos != body_nos:
        raise Violation("section:" + tag, "reduce_to_section does not return exactly the lines between the markers",
                        got_nos, body_nos)
    # --lines string
    pieces = []
    prev = 0
    bounds = case["cuts"] + [len(case["body"])]
    for k, b in enumerate(bounds):
        a_no, b_no = body_nos[prev], body_nos[b - 1]
        pieces.append(str(a_no) if a_no == b_no else "%d%s%d" % (a_no, case["seps"][k], b_no))
        prev = b
    # the entries name a set of lines: any order of the comma-separated entries names the same kernel
    order = case.get("order", 0)
    if order and len(pieces) > 1:
        pieces = pieces[order % len(pieces):] + pieces[:order % len(pieces)]
        if order % 2:
            pieces.reverse()
    lines_arg = ",".join(pieces)
    rng = guard(oo.get_line_range, lines_arg, what="get_line_range")
    if sorted(rng) != sorted(ref_line_range(lines_arg)) or sorted(rng) != body_nos:
        raise Violation("line-range:" + isa, "--lines %r expands to the wrong line set" % lines_arg, list(rng), body_nos)
    # analyses of the three variants + noise
    base = ["--arch", case["arch"], "--lcd-timeout", "-1"] + (["--fixed"] if case["fixed"] else [])
    if case.get("noarch"):
        base = base[2:]  # no --arch: default model of the guessed ISA, the same for all variants of this file

    def analyse(argv, text, what):
        out, _, _ = guard(cli.run_inprocess, argv, text, what="osaca %s (%s)" % (" ".join(argv), what))
        try:
            return report.numbers(report.parse(out))
        except report.ReportError as e:
            raise Violation("report-format", "report of the %s variant cannot be parsed: %s" % (what, e), out[-400:],
                            None)

    a_marked = analyse(base, code, "marked")
    a_lines = analyse(base + ["--lines", lines_arg], code, "--lines")
    a_body = analyse(base, "\n".join(case["body"]) + "\n", "body only")
    nb = list(case["body"])
    for pos, txt in sorted(case["noise"], key=lambda x: -x[0]):
        nb.insert(pos, txt)
    a_noise = analyse(base, "\n".join(nb) + "\n", "body with noise")
    for nm, other in (("lines", a_lines), ("body", a_body), ("noise", a_noise)):
        if other != a_marked:
            diff = [(x, y) for x, y in zip(a_marked[0], other[0]) if x != y][:2]
            raise Violation("variants:%s:%s" % (nm, isa), "analysis of the %s variant differs from the marked file "
                            "(%s on %s)" % (nm, case["kernel"], case["arch"]),
                            core.jsonable([diff, other[1]]), core.jsonable(a_marked[1]))
    # a selection with holes: --lines naming a non-contiguous subset of the body is the kernel made of exactly
    # those lines (the lines in the holes take no part in the analysis)
    holes = case.get("holes") or []
    gap_cl = []
    if holes and len(case["body"]) >= 3:
        keep = [i for i in range(len(case["body"])) if i not in {1 + h % (len(case["body"]) - 2) for h in holes}]
        sel = [case["body"][i] for i in keep]
        if any(sel[i].strip() in mv_ and sel[i + 1].strip() == by_ for i in range(len(sel) - 1)):
            keep = list(range(len(case["body"])))  # the selection itself would form a marker: not used
        if len(keep) < len(case["body"]):
            sel_nos = [body_nos[i] for i in keep]
            a_gap = analyse(base + ["--lines", ",".join(str(x) for x in sel_nos)], code, "--lines with holes")
            a_sel = analyse(base, "\n".join(case["body"][i] for i in keep) + "\n", "selected lines only")
            if a_gap != a_sel:
                diff = [(x, y) for x, y in zip(a_sel[0], a_gap[0]) if x != y][:2]
                raise Violation("variants:lines-with-holes:" + isa, "analysis of --lines %s differs from the analysis "
                                "of a file containing only those lines (%s on %s)" % (
                                    ",".join(str(x) for x in sel_nos), case["kernel"], case["arch"]),
                                core.jsonable([diff, a_gap[1]]), core.jsonable(a_sel[1]))
            gap_cl = ["lines-with-holes"]
    dec = lambda side: any(d in DECOYS[isa] for d in side)
    mixed = any("-" in p or ":" in p for p in pieces) and any(p.isdigit() for p in pieces)
    inner_noise = any(0 < pos < len(case["body"]) for pos, _ in case["noise"])
    body_decoy = any(l in [x for d in DECOYS[isa] for x in d.split("\n")] for l in case["body"])
    nt = (dec(case["pro"]) and dec(case["epi"])) or mixed or inner_noise or body_decoy
    cl = [isa, "style:" + case["style"], "arch:" + case["arch"]] + gap_cl
    if body_nos[-1] >= 1000:
        cl.append("line-numbers>=1000")
    if dec(case["pro"]) or dec(case["epi"]):
        cl.append("decoy")
    if inner_noise:
        cl.append("noise-inside-kernel")
    if body_decoy:
        cl.append("look-alike-inside-kernel")
    if mixed:
        cl.append("lines-range+single")
    if order and len(pieces) > 1:
        cl.append("lines-entries-not-ascending")
    if case.get("noarch"):
        cl.append("no---arch:scalar-integer-x86")
    if case.get("formfeed"):
        cl.append("form-feed-line-before-the-kernel")
    return {"nontrivial": nt, "classes": cl, "key": [code, lines_arg, case["noise"], case["arch"], case["fixed"]],
            "sample": {"arch": case["arch"], "file": [l for l in lines if l][:14], "lines_arg": lines_arg,
                       "first_body_line": first_body, "noise": case["noise"]}}


def plan(tier, seed):
    n = {"quick": 20, "thorough": 600}[tier]
    shards = []
    for i in range(16):
        isa = "x86" if i % 2 == 0 else "aarch64"
        pool = ["zen1", "zen2", "spr", "hsw", "zen3", "zen4", "icx", "snb"] if isa == "x86" else \
            ["tx2", "n1", "a64fx", "tsv110", "a72", "m1", "v2", "n1"]
        shards.append({"isa": isa, "archs": [pool[(i // 2) % len(pool)]], "seed": seed * 1000 + 1100 + i, "n": n})
    return shards


def run_shard(spec):
    stats = Stats()
    ks = [k for k in corpus.kernels() if k[1] == spec["isa"] and len(k[2]) < 50]
    failures = hyp_search(ID, cases(spec["isa"], spec["archs"], ks), check_case, stats, seed=spec["seed"],
                          max_examples=spec["n"], shrink=False)
    return {"stats": stats.to_dict(), "failures": failures}


def replay(case):
    return check_case(case)


LEVEL_TEXT = ("Randomised testing of marker/--lines selection against the constructed body, plus metamorphic equality "
              "of complete analyses across the three ways of selecting the same kernel and under insertion of "
              "non-instruction lines.")
LEVEL_NOTE = "Trusted: the file constructor in checks/c11.py and the report parser (lib/report.py)."
TECHNIQUE = "property-based testing with a constructive oracle (known body) and metamorphic equality of analyses"
