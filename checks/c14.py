"""C14 - loop-carried dependencies are invariant under rotation of the loop body."""
from lib import core, corpus, deps, env, synth
from lib.core import Stats, Violation, failure_record, guard, hyp_search

ID = "C14"
LEVEL = "exploration"
WARM = None
RULE = (
    "metamorphic: (a) generated kernels as in C03 (register, flag, write-back and read-modify-write memory "
    "dependencies, both ISA flavours) x every rotation offset; (b) every shipped example/test kernel x shipped "
    "models of its ISA x every rotation offset (quick: 3 offsets per kernel incl. 1 and n-1; kernels of 50 and more "
    "lines, which use the multi-process search, with offsets 1, 2, n-2, n-1 and one more); (c) loops through memory "
    "of 3-8 real instructions (pointer bumps, plain / read-modify-write / write-back stores, loads, uses, compare "
    "and branch in any order) on shipped models x every rotation offset. Oracle: the set of "
    "reported cycles mapped to instruction identities (position modulo rotation) with their latencies, and the "
    "LCD figure, are equal for all rotations. Non-trivial: the kernel has >=1 LCD whose members straddle the "
    "rotation point (some member before and some at/after it). Distinct = distinct (kernel, model, offset)."
)
ASSUMPTIONS = ["rotation is applied to the kernel's lines as a whole (labels/comments rotate with them)"]
MIN_NONTRIVIAL = {"quick": 300, "thorough": 3000}


def lcd_map(dg, first_line, n, rot):
    lcd = guard(dg.get_loopcarried_dependencies, what="get_loopcarried_dependencies")
    out = {}
    for v in lcd.values():
        ms = frozenset((nd.line_number - first_line - 1 + rot) % n for nd, _ in v["dependencies"])
        lat = round(float(v["latency"]), 9)
        out.setdefault(ms, []).append(lat)
    for ms, lats in out.items():
        if len(lats) > 1:
            raise Violation("lcd-duplicate", "the same cycle (same member instructions) is reported %d times" %
                            len(lats), sorted(ms), None)
    return {k: sorted(v) for k, v in out.items()}


def compare(base, other, rot, tag):
    if set(base) != set(other):
        raise Violation("rotation-set:" + tag, "rotating the loop body by %d lines changes the set of reported "
                        "loop-carried dependencies" % rot,
                        sorted(map(sorted, other)), sorted(map(sorted, base)))
    for k in base:
        if base[k] != other[k]:
            raise Violation("rotation-latency:" + tag, "rotating the loop body by %d lines changes a cycle "
                            "latency" % rot, other[k], base[k])


MEM_POOL = {
    "x86": ["addq $8, %rbx", "addq $16, %rbx", "subq $8, %rbx", "incq %rbx",
            "movq %rcx, {d}(%rbx)", "addq %rcx, {d}(%rbx)", "incq {d}(%rbx)", "subq %rcx, {d}(%rbx)",
            "addq $1, {d}(%rbx)", "vmovsd %xmm0, {d}(%rbx)",
            "movq {d}(%rbx), %rdx", "vmovsd {d}(%rbx), %xmm1", "addq {d}(%rbx), %rcx",
            "addq %rdx, %rcx", "vaddsd %xmm1, %xmm0, %xmm0", "cmpq %rsi, %rbx", "jne .L3"],
    "aarch64": ["add x2, x2, #8", "add x2, x2, #16", "sub x2, x2, #8",
                "str x1, [x2, #{d}]", "str x1, [x2], #8", "str d0, [x2, #{d}]", "str x1, [x2, #8]!",
                "ldr x3, [x2, #{d}]", "ldr x3, [x2, #8]!", "ldr d1, [x2, #{d}]", "ldr x3, [x2], #8",
                "ldr d1, [x2], #8", "ldr d1, [x2, #8]!", "ldr d4, [x6]", "ldr d5, [x7], #8", "fadd d0, d0, d4",
                "add x1, x1, x3", "fadd d0, d0, d1", "cmp x2, x5", "b.ne .L3"],
}


# recurrences through memory that are always run (every rotation, every model of the shard)
MEM_TEMPLATES = {
    "aarch64": [
        ["ldr d1, [x1], #8", "ldr d0, [x0]", "fmadd d0, d1, d2, d0", "str d0, [x0]", "subs x3, x3, #1"],
        ["ldr d0, [x0]", "ldr d1, [x1, #8]!", "fadd d0, d0, d1", "str d0, [x0]", "add x0, x0, #0"],
        ["str x1, [x2], #8", "ldr x3, [x2, #-8]", "add x1, x1, x3", "ldr x4, [x5]", "add x1, x1, x4"],
    ],
    "x86": [
        ["addq $8, %rbx", "addq %rcx, (%rbx)", "movq (%rbx), %rdx", "addq %rdx, %rcx", "cmpq %rsi, %rbx"],
        ["vmovsd (%rax), %xmm0", "vaddsd 8(%rbx), %xmm0, %xmm0", "vmovsd %xmm0, (%rax)", "addq $8, %rbx"],
    ],
}


def memloops(isa, archs):
    """loops through memory written with real instructions: pointer bumps, plain / read-modify-write / write-back
    stores, loads and uses in any order"""
    from hypothesis import strategies as st

    @st.composite
    def gen(draw):
        n = draw(st.integers(3, 8))
        lines = []
        for _ in range(n):
            t = draw(st.sampled_from(MEM_POOL[isa]))
            d = draw(st.sampled_from([0, 8, 8, 16, -8] if isa == "x86" else [0, 8, 8, 16]))
            lines.append(t.replace("{d}", str(d)))
        return {"kind": "corpus", "arch": draw(st.sampled_from(archs)), "name": "memloop", "lines": lines,
                "offsets": list(range(1, n))}
    return gen()


def check_case(case):
    if case.get("kind") == "corpus":
        return check_corpus(case)
    from checks import c03

    n = len(case["kernel"])
    fl = case.get("first_line", 0)
    kernel, dg, mm, sem = c03.runner().build(case)
    base = lcd_map(dg, fl, n, 0)
    straddle = False
    sub = []
    for rot in range(1, n):
        rk = case["kernel"][rot:] + case["kernel"][:rot]
        c2 = dict(case, kernel=rk)
        k2, dg2, _, _ = c03.runner().build(c2)
        other = lcd_map(dg2, fl, n, rot)
        compare(base, other, rot, case["isa"])
        st_ = any(min(ms) < rot <= max(ms) for ms in base)
        straddle = straddle or st_
        sub.append(([case["forms"], case["kernel"], case["flagdeps"], rot], st_))
    cl = [case["isa"], "lcds=%s" % (len(base) if len(base) < 4 else "4+")]
    return {"nontrivial": False, "sub": sub, "classes": cl + (["lcd-straddles-rotation-point"] if straddle else []),
            "key": [case["forms"], case["kernel"], case["flagdeps"]],
            "sample": {"isa": case["isa"], "kernel": deps.kernel_text(case).strip().split("\n"),
                       "lcds": sorted([sorted(k), v] for k, v in base.items())}}


_M = {}


def _build_real(arch, lines, fresh=False):
    from osaca.semantics import ArchSemantics, KernelDG, MachineModel
    from osaca.parser import ParserAArch64, ParserX86ATT

    if fresh:
        # a model object of its own for this analysis, as a CLI run has (state kept on the model object must not
        # make one rotation depend on another)
        _M.pop(arch, None)
    if arch not in _M:
        _M.clear()
        mm = guard(MachineModel, arch=arch, what="MachineModel")
        _M[arch] = (mm, guard(ArchSemantics, mm, what="ArchSemantics"))
    mm, sem = _M[arch]
    parser = ParserX86ATT() if env.isa_of(arch) == "x86" else ParserAArch64()
    kernel = guard(parser.parse_file, "\n".join(lines) + "\n", what="parse_file")
    guard(sem.add_semantics, kernel, what="add_semantics")
    return guard(KernelDG, kernel, parser, mm, sem, timeout=-1, what="KernelDG")


def check_corpus(case):
    lines, arch = case["lines"], case["arch"]
    n = len(lines)
    fresh = case["name"] == "memloop"
    base = lcd_map(_build_real(arch, lines, fresh), 0, n, 0)
    straddle = False
    sub = []
    for rot in case["offsets"]:
        other = lcd_map(_build_real(arch, lines[rot:] + lines[:rot], fresh), 0, n, rot)
        compare(base, other, rot, "corpus")
        st_ = any(min(ms) < rot <= max(ms) for ms in base)
        straddle = straddle or st_
        sub.append(([case["name"], arch, rot], st_))
    if case["name"] == "memloop":
        sub = [([lines, arch, rot], nt_) for (_, _, rot), nt_ in [(k_, v_) for k_, v_ in sub]]
        return {"nontrivial": False, "sub": sub, "classes": ["memloop", "memloop:" + arch, "memloop:lcds=%s" % (
            len(base) if len(base) < 4 else "4+")], "key": [lines, arch],
            "sample": {"kernel": lines, "arch": arch, "lcds": sorted([sorted(k), v] for k, v in base.items())}}
    return {"nontrivial": False, "sub": sub, "classes": ["corpus", "corpus:" + arch],
            "key": [case["name"], arch, case["offsets"]],
            "sample": {"kernel": case["name"], "arch": arch, "offsets": case["offsets"],
                       "lcds": sorted([sorted(k), v] for k, v in base.items())}}


def plan(tier, seed):
    n = {"quick": 110, "thorough": 2500}[tier]
    shards = [{"kind": "synthetic", "isa": "x86" if i % 2 == 0 else "aarch64", "seed": seed * 1000 + 1400 + i,
               "n": n, "max_len": 9 if i % 4 < 2 else 6} for i in range(10)]
    archs = env.ALL_ARCHS if tier == "thorough" else ["zen1", "spr", "zen3", "tx2", "n1", "a72"]
    for j in range(6):
        shards.append({"kind": "corpus", "archs": archs[j::6], "tier": tier, "seed": seed})
    m = {"quick": 70, "thorough": 600}[tier]
    for j, g in enumerate([["zen1", "icx"], ["hsw", "zen3"], ["tx2", "n1"], ["a64fx", "v2"]]):
        shards.append({"kind": "memloop", "isa": env.isa_of(g[0]), "archs": g, "seed": seed * 1000 + 1450 + j, "n": m})
    return shards


def run_shard(spec):
    stats = Stats()
    if spec["kind"] == "corpus":
        failures = {}
        for arch in spec["archs"]:
            for name, isa, lines in corpus.kernels():
                if isa != env.isa_of(arch):
                    continue
                n = len(lines)
                if n >= 50:
                    # multi-process search (real threshold, real worker count): the ends of the body and one more
                    offs = sorted({1, 2, n - 2, n - 1, 1 + (spec["seed"] * 7 + len(name)) % (n - 1)})
                    if spec["tier"] != "thorough" and (len(name) + spec["seed"]) % 2:
                        continue
                elif spec["tier"] == "thorough":
                    offs = list(range(1, n))
                else:
                    offs = sorted({1, n - 1, 1 + (spec["seed"] * 7 + len(name)) % (n - 1)}) if n > 1 else []
                case = {"kind": "corpus", "arch": arch, "name": name, "lines": lines, "offsets": offs}
                try:
                    info = check_corpus(case)
                except Violation as v:
                    stats.evaluations += 1
                    if v.bucket not in failures:
                        failures[v.bucket] = failure_record(ID, case, v)
                    continue
                stats.record(case, info)
        return {"stats": stats.to_dict(), "failures": list(failures.values())}
    if spec["kind"] == "memloop":
        failures = hyp_search(ID, memloops(spec["isa"], spec["archs"]), check_case, stats, seed=spec["seed"],
                              max_examples=spec["n"])
        seen = {f["bucket"] for f in failures}
        for arch in spec["archs"]:
            for lines in MEM_TEMPLATES[spec["isa"]]:
                case = {"kind": "corpus", "arch": arch, "name": "memloop", "lines": lines,
                        "offsets": list(range(1, len(lines)))}
                try:
                    stats.record(case, check_case(case))
                except Violation as v:
                    stats.evaluations += 1
                    if v.bucket not in seen:
                        seen.add(v.bucket)
                        failures.append(failure_record(ID, case, v))
        return {"stats": stats.to_dict(), "failures": failures}
    strat = deps.dep_cases(isa=spec["isa"], max_len=spec["max_len"], min_len=2, big_lines=False)
    failures = hyp_search(ID, strat, check_case, stats, seed=spec["seed"], max_examples=spec["n"])
    from checks import c03
    c03.runner().close()
    return {"stats": stats.to_dict(), "failures": failures}


def replay(case):
    return check_case(case)


LEVEL_TEXT = ("Metamorphic testing: the loop-carried dependencies of every rotation of a kernel are compared with "
              "those of the unrotated kernel, over generated kernels (all offsets) and the shipped corpus on "
              "shipped models; needs no reference model, only the invariance stated by the property.")
LEVEL_NOTE = "Trusted: the mapping of reported line numbers to instruction identities under rotation."
TECHNIQUE = "metamorphic property-based testing (rotation invariance of the reported cycle set)"
