"""C17 - model caches are transparent, also after interrupted or racing writes."""
import glob
import hashlib
import os
import shutil
import subprocess
import tempfile

import hypothesis
from hypothesis import settings, strategies as st
from hypothesis.stateful import RuleBasedStateMachine, rule, run_state_machine_as_test

from lib import cli, core, corpus, env, report
from lib.core import Stats, Violation, failure_record

ID = "C17"
LEVEL = "fault_enumeration"
WARM = []
RULE = (
    "rule-based state machine (Hypothesis stateful) over a sandbox $HOME holding private copies of small models "
    "(tx2, n1, zen1 and both ISA databases) in ~/.osaca/data. Operations: run the CLI on a shipped kernel; look a "
    "model up twice in one process; delete the companion / home cache; move the companion pickle to the home cache; "
    "make the data directory read-only (chattr +i) so that the home cache is used; replace a model file's content while a cold-starting process is between parsing it and writing the "
    "cache (the harness wraps the YAML library's load, later runs must report the new content); analyse through the "
    "API with a "
    "model file given by path (names with and without further dots, two files sharing a dotted prefix) and replace "
    "such a file's content; switch the model file - and the ISA description used with it - (also with the file's time stamps kept) between two "
    "contents A/B (B differs in latencies), also while a process that already loaded it is alive (in-process lookup after "
    "the edit); cut a cache file at an offset class {0 bytes, header only (1-16), "
    "mid-stream, last byte missing} or overwrite it with garbage; replace it by a cache of another format version (older or newer) holding "
    "different data; a benchmark import (which extends the model in memory) as the process that "
    "fills the cold cache; N in {2,4,8} processes cold-starting at once; one "
    "cold start in which a simulated competitor creates ~/.osaca/cache between the existence test and the mkdir and "
    "puts its cache file in place just before the rename (harness-owned interleaving: os.mkdir/os.replace wrapped "
    "in the child). "
    "Fault tier: every offset class x both cache locations x 3 models enumerated. Oracle: exit status 0, empty "
    "stderr, and the report (timestamp/file name removed) equals the report of a cold run on the same model content "
    "and kernel. Non-trivial: a history with a warm hit after a write, a model edit after caching, or a cut/garbage "
    "cache followed by two runs. Distinct = distinct history prefix per checked run; evaluations count checked CLI runs."
)
ASSUMPTIONS = [
    "real interleavings of two writers are sampled with concurrent processes; the truncation classes model what a "
    "reader can observe of a partial write",
    "chattr +i is used to make the data directory read-only for root; when unavailable the step is skipped and counted",
]
MIN_NONTRIVIAL = {"quick": 40, "thorough": 200}
SHARD_TIMEOUT = {"quick": 1500, "thorough": 7200}
ARCHS = ["tx2", "n1", "zen1"]
KERNELS = {
    "aarch64": ["tests/test_files/kernel_aarch64.s", "examples/update/update.s.tx2.clang.s",
                "examples/sum_reduction/sum_reduction.s.tx2.gcc.s"],
    "x86": ["tests/test_files/kernel_x86.s", "tests/test_files/triad_x86_iaca.s",
            "examples/copy/copy.s.csx.icc.s"],
}


def variant_text(arch, variant):
    with open(os.path.join(env.REPO, "osaca", "data", arch + ".yml")) as fh:
        t = fh.read()
    if variant == "B":
        t = t.replace("latency: 4.0", "latency: 5.0").replace("latency: 6.0", "latency: 7.0") + "\n# variant B\n"
    return t


def isa_variant_text(isa, variant):
    """variant B of an ISA description: loads also read their destination registers (aarch64) / add $imm does not
    read its register (x86) - the dependency graph, and with it the CP/LCD columns, differ"""
    with open(os.path.join(env.REPO, "osaca", "data", "isa", isa + ".yml")) as fh:
        t = fh.read()
    if variant == "B":
        if isa == "aarch64":
            for key in ("    - name: [ldp, ldnp]", "    - name: [ldr, ldur"):
                i = t.index(key)
                j = t.index("    - name:", i + 10)
                t = t[:i] + t[i:j].replace("source: false\n          destination: true",
                                           "source: true\n          destination: true") + t[j:]
        else:
            i = t.index("    - name: add\n")
            j = t.index("    - name:", i + 10)
            t = t[:i] + t[i:j].replace("source: true\n          destination: true",
                                       "source: false\n          destination: true", 1) + t[j:]
        t += "\n# variant B\n"
    return t


class Sandbox:
    def __init__(self):
        self.home = tempfile.mkdtemp(prefix="verif-c17-")
        self.data = os.path.join(self.home, ".osaca", "data")
        self.cache = os.path.join(self.home, ".osaca", "cache")
        os.makedirs(os.path.join(self.data, "isa"))
        self.variant = {}
        for a in ARCHS:
            self.set_variant(a, "A")
        self.isavariant = {}
        for i in ("x86", "aarch64"):
            self.set_isa_variant(i, "A")
        self.readonly = False
        self.user = os.path.join(self.home, "models")
        os.makedirs(self.user)
        self.uservariant = {}

    def set_user(self, name, arch, v):
        with open(os.path.join(self.user, name), "w") as fh:
            fh.write(variant_text(arch, v))
        self.uservariant[name] = (arch, v)

    def set_isa_variant(self, isa, v):
        with open(os.path.join(self.data, "isa", isa + ".yml"), "w") as fh:
            fh.write(isa_variant_text(isa, v))
        self.isavariant[isa] = v

    def set_variant(self, arch, v):
        with open(os.path.join(self.data, arch + ".yml"), "w") as fh:
            fh.write(variant_text(arch, v))
        self.variant[arch] = v

    def set_readonly(self, on):
        flag = "+i" if on else "-i"
        r = subprocess.run(["chattr", flag, self.data], capture_output=True)
        if r.returncode == 0:
            self.readonly = on
            return True
        return False

    def companion(self, arch):
        return glob.glob(os.path.join(self.data, "." + arch + "_*.pickle"))

    def homefiles(self, arch=None):
        return glob.glob(os.path.join(self.cache, (arch or "*") + "_*.pickle"))

    def current_hash(self, arch):
        with open(os.path.join(self.data, arch + ".yml"), "rb") as fh:
            return hashlib.sha256(fh.read()).hexdigest()

    def close(self):
        if self.readonly:
            self.set_readonly(False)
        subprocess.run(["chattr", "-i", self.data], capture_output=True)
        shutil.rmtree(self.home, ignore_errors=True)


_REF = {}


def kernel_code(name):
    with open(os.path.join(env.REPO, name)) as fh:
        return fh.read()


def reference(arch, variant, kernel, fixed, isav="A"):
    key = (arch, variant, kernel, fixed, isav)
    if key not in _REF:
        sb = Sandbox()
        try:
            sb.set_variant(arch, variant)
            sb.set_isa_variant(env.isa_of(arch), isav)
            rc, out, err = cli.run_subprocess(argv_for(arch, fixed), code=kernel_code(kernel), home=sb.home)
            if rc != 0:
                raise core.HarnessError("cold reference run failed: " + err[-500:])
            _REF[key] = report.normalise(out)
        finally:
            sb.close()
    return _REF[key]


def api_run(home, model, kernel):
    d = tempfile.mkdtemp(prefix="verif-c17a-")
    try:
        p = os.path.join(d, "k.s")
        with open(p, "w") as fh:
            fh.write(kernel_code(kernel))
        e = env.child_env()
        e["HOME"] = home
        pr = subprocess.run([env.PY, "-c", APIRUN, model, p], env=e, capture_output=True, timeout=600)
        return pr.returncode, pr.stdout.decode(errors="replace"), pr.stderr.decode(errors="replace")
    finally:
        shutil.rmtree(d, ignore_errors=True)


def api_reference(arch, variant, kernel, isav="A"):
    key = ("api", arch, variant, kernel, isav)
    if key not in _REF:
        sb = Sandbox()
        try:
            sb.set_user("ref.yml", arch, variant)
            sb.set_isa_variant(env.isa_of(arch), isav)
            rc, out, err = api_run(sb.home, os.path.join(sb.user, "ref.yml"), kernel)
            if rc != 0:
                raise core.HarnessError("cold API reference run failed: " + err[-500:])
            _REF[key] = report.normalise(out)
        finally:
            sb.close()
    return _REF[key]


def argv_for(arch, fixed):
    return ["--arch", arch] + (["--fixed"] if fixed else [])


TWICE = r"""
import sys, io
from osaca.semantics import MachineModel
import osaca.osaca as oo
arch, path = sys.argv[1], sys.argv[2]
a = MachineModel(arch=arch)
b = MachineModel(arch=arch)
p = oo.create_parser()
for i in range(2):
    args = p.parse_args(["--arch", arch] + sys.argv[3:] + [path])
    oo.check_arguments(args, p)
    out = io.StringIO()
    oo.run(args, output_file=out)
    args.file.close()
    sys.stdout.write("=====REPORT=====\n")
    sys.stdout.write(out.getvalue())
"""


EDIT = r"""
import sys, io, shutil
import osaca.osaca as oo
arch, path, newmodel, target = sys.argv[1], sys.argv[2], sys.argv[3], sys.argv[4]
p = oo.create_parser()
for i in range(2):
    args = p.parse_args(["--arch", arch, path])
    oo.check_arguments(args, p)
    out = io.StringIO()
    oo.run(args, output_file=out)
    args.file.close()
    sys.stdout.write("=====REPORT=====\n")
    sys.stdout.write(out.getvalue())
    if i == 0:
        shutil.copyfile(newmodel, target)   # the model file changes while the process lives
"""


APIRUN = r"""
import sys
from osaca.frontend import Frontend
from osaca.parser import get_parser
from osaca.semantics import ArchSemantics, KernelDG, MachineModel, reduce_to_section
model, kpath = sys.argv[1], sys.argv[2]
mm = MachineModel(path_to_yaml=model)
isa = mm.get_ISA()
parser = get_parser(isa)
with open(kpath) as fh:
    kernel = reduce_to_section(parser.parse_file(fh.read()), isa)
sem = ArchSemantics(mm)
sem.add_semantics(kernel)
sem.assign_optimal_throughput(kernel)
dg = KernelDG(kernel, parser, mm, sem, timeout=-1)
fe = Frontend(filename="k.s", path_to_yaml=model)
sys.stdout.write(fe.full_analysis(kernel, dg, ignore_unknown=True))
"""

# user model files addressed by path (API use: MachineModel(path_to_yaml=...)); the names share a dotted prefix
USER_FILES = ["my.model.yml", "my.other.yml", "plain.yml"]


# the harness owns the schedule: the model file is replaced right after OSACA has parsed it and before the
# cache is written (ruamel's load is wrapped, no OSACA code is touched)
EDITLOAD = r"""
import sys, io, shutil
import ruamel.yaml
arch, path, newmodel, target = sys.argv[1], sys.argv[2], sys.argv[3], sys.argv[4]
orig = ruamel.yaml.YAML.load
state = {"done": False}
def load(self, stream):
    r = orig(self, stream)
    if not state["done"] and hasattr(r, "get") and r.get("ports") is not None and r.get("instruction_forms"):
        state["done"] = True
        shutil.copyfile(newmodel, target)
    return r
ruamel.yaml.YAML.load = load
import osaca.osaca as oo
p = oo.create_parser()
args = p.parse_args(["--arch", arch, path])
oo.check_arguments(args, p)
out = io.StringIO()
oo.run(args, output_file=out)
sys.stdout.write("EDITED" if state["done"] else "NOT-EDITED")
"""


# harness-owned interleaving of two cold-starting processes: the competitor creates the home cache directory
# between our existence test and our mkdir, and has its cache file in place before our rename (os.mkdir and
# os.replace are wrapped in the child, no OSACA code is touched)
RACEFS = r"""
import os, sys, io, shutil
target = os.path.join(os.path.expanduser("~"), ".osaca", "cache")
_mkdir, _replace = os.mkdir, os.replace
hits = []
def mkdir(path, *a, **k):
    if os.path.abspath(os.fspath(path)) == target and not os.path.isdir(target):
        os.makedirs(os.path.dirname(target), exist_ok=True)
        _mkdir(target)
        hits.append("mkdir")
    return _mkdir(path, *a, **k)
def replace(src, dst, *a, **k):
    if os.fspath(dst).endswith(".pickle") and not os.path.exists(dst):
        shutil.copyfile(src, dst)
        hits.append("replace")
    return _replace(src, dst, *a, **k)
os.mkdir, os.replace = mkdir, replace
import osaca.osaca as oo
p = oo.create_parser()
args = p.parse_args(sys.argv[1:])
oo.check_arguments(args, p)
out = io.StringIO()
oo.run(args, output_file=out)
sys.stdout.write(out.getvalue())
sys.stderr.write("")
open(os.environ["VERIF_HITS"], "w").write(",".join(hits))
"""


class Interp:
    """Executes history steps against a sandbox and checks every run."""

    def __init__(self):
        self.sb = Sandbox()
        self.history = []
        self.facts = {"runs": 0, "written": set(), "warm_hit_after_write": False, "edit_after_cache": False,
                      "damaged": {}, "two_runs_after_damage": False, "skipped_readonly": 0, "checked": []}

    def close(self):
        self.sb.close()

    def check_run(self, step, rc, out, err, tagx=""):
        sb = self.sb
        arch = step["arch"]
        tag = step["op"] + tagx
        state = self.describe(arch)
        if rc != 0 or err.strip():
            raise Violation("run-fails:%s:%s" % (tag, state), "run fails / writes to stderr with cache state '%s' "
                            "(%s %s)" % (state, arch, step["kernel"]), (err or out)[-600:], "exit 0, empty stderr")
        ref = reference(arch, sb.variant[arch], step["kernel"], step.get("fixed", False),
                        sb.isavariant[env.isa_of(arch)])
        if report.normalise(out) != ref:
            gl, rl = report.normalise(out).split("\n"), ref.split("\n")
            raise Violation("report-differs:%s:%s" % (tag, state), "report with cache state '%s' differs from the "
                            "cold-run report for the same model content" % state,
                            [(a, b) for a, b in zip(gl, rl) if a != b][:3], None)

    def describe(self, arch):
        sb = self.sb
        h = sb.current_hash(arch)
        comp = [f for f in sb.companion(arch) if h in f]
        home = [f for f in sb.homefiles(arch) if h in f]
        bits = []
        if arch in self.facts["damaged"]:
            bits.append("damaged-" + self.facts["damaged"][arch])
        bits.append("companion" if comp else "no-companion")
        bits.append("home" if home else "no-home")
        if sb.readonly:
            bits.append("readonly")
        return "+".join(bits)

    def do(self, step):
        self.history.append(step)
        sb = self.sb
        op = step["op"]
        f = self.facts
        if op == "run":
            arch = step["arch"]
            h = sb.current_hash(arch)
            warm = any(h in x for x in sb.companion(arch) + sb.homefiles(arch))
            rc, out, err = cli.run_subprocess(argv_for(arch, step.get("fixed", False)),
                                              code=kernel_code(step["kernel"]), home=sb.home)
            self.check_run(step, rc, out, err)
            f["runs"] += 1
            if warm and (arch, h) in f["written"] and arch not in f["damaged"]:
                f["warm_hit_after_write"] = True
            if arch in f["damaged"]:
                f.setdefault("runs_after_damage", {}).setdefault(arch, 0)
                f["runs_after_damage"][arch] += 1
                if f["runs_after_damage"][arch] >= 2:
                    f["two_runs_after_damage"] = True
                    del f["damaged"][arch]
                    f["runs_after_damage"][arch] = 0
            f["written"].add((arch, h))
            f["checked"].append(len(self.history))
        elif op == "twice":
            arch = step["arch"]
            d = tempfile.mkdtemp(prefix="verif-c17k-")
            p = os.path.join(d, "k.s")
            with open(p, "w") as fh:
                fh.write(kernel_code(step["kernel"]))
            e = env.child_env()
            e["HOME"] = sb.home
            pr = subprocess.run([env.PY, "-c", TWICE, arch, p] + (["--fixed"] if step.get("fixed") else []), env=e,
                                capture_output=True, timeout=600)
            shutil.rmtree(d, ignore_errors=True)
            out, err = pr.stdout.decode(errors="replace"), pr.stderr.decode(errors="replace")
            parts = out.split("=====REPORT=====\n")[1:]
            if pr.returncode != 0 or len(parts) != 2:
                self.check_run(step, pr.returncode or 1, out, err or "two lookups failed")
            for i, part in enumerate(parts):
                self.check_run(step, 0, part, err, tagx=":lookup%d" % (i + 1))
            f["written"].add((arch, sb.current_hash(arch)))
            f["checked"].append(len(self.history))
        elif op == "edit_inproc":
            # one process: analyse, the model file is replaced by the other variant, analyse again
            arch = step["arch"]
            if sb.readonly:
                return
            isa_ = env.isa_of(arch)
            which = step.get("which", "arch")  # the micro-architecture file or the ISA description it is used with
            before = sb.variant[arch] if which == "arch" else sb.isavariant[isa_]
            after = "B" if before == "A" else "A"
            d = tempfile.mkdtemp(prefix="verif-c17e-")
            p = os.path.join(d, "k.s")
            with open(p, "w") as fh:
                fh.write(kernel_code(step["kernel"]))
            newmodel = os.path.join(d, "new.yml")
            with open(newmodel, "w") as fh:
                fh.write(variant_text(arch, after) if which == "arch" else isa_variant_text(isa_, after))
            target = os.path.join(sb.data, arch + ".yml") if which == "arch" else os.path.join(sb.data, "isa",
                                                                                               isa_ + ".yml")
            e = env.child_env()
            e["HOME"] = sb.home
            pr = subprocess.run([env.PY, "-c", EDIT, arch, p, newmodel, target], env=e,
                                capture_output=True, timeout=600)
            shutil.rmtree(d, ignore_errors=True)
            out, err = pr.stdout.decode(errors="replace"), pr.stderr.decode(errors="replace")
            parts = out.split("=====REPORT=====\n")[1:]
            if pr.returncode != 0 or len(parts) != 2:
                self.check_run(step, pr.returncode or 1, out, err or "edit-in-process run failed")
            self.check_run(step, 0, parts[0], err, tagx=":before-edit")
            if which == "arch":
                sb.variant[arch] = after
            else:
                sb.isavariant[isa_] = after
            self.check_run(step, 0, parts[1], err, tagx=":after-%s-edit-same-process" % which)
            f["edit_after_cache"] = True
            f["written"].add((arch, sb.current_hash(arch)))
            f["checked"].append(len(self.history))
        elif op == "edit_during_load":
            # cold start; the file's content is replaced between parsing and cache writing; the run itself may
            # report either content (not asserted) - every later run has to report the new content
            arch = step["arch"]
            if sb.readonly:
                return
            for x in sb.companion(arch) + sb.homefiles(arch):
                os.remove(x)
            before = sb.variant[arch]
            after = "B" if before == "A" else "A"
            d = tempfile.mkdtemp(prefix="verif-c17l-")
            p = os.path.join(d, "k.s")
            with open(p, "w") as fh:
                fh.write(kernel_code(step["kernel"]))
            newmodel = os.path.join(d, "new.yml")
            with open(newmodel, "w") as fh:
                fh.write(variant_text(arch, after))
            e = env.child_env()
            e["HOME"] = sb.home
            pr = subprocess.run([env.PY, "-c", EDITLOAD, arch, p, newmodel, os.path.join(sb.data, arch + ".yml")],
                                env=e, capture_output=True, timeout=600)
            shutil.rmtree(d, ignore_errors=True)
            out, err = pr.stdout.decode(errors="replace"), pr.stderr.decode(errors="replace")
            if pr.returncode != 0:
                self.check_run(step, pr.returncode, out, err or "run failed")
            if out.endswith("NOT-EDITED"):
                raise core.HarnessError("edit_during_load: the model was not parsed in a cold start")
            sb.variant[arch] = after
            f["edit_after_cache"] = True
            f["edited_during_load"] = f.get("edited_during_load", 0) + 1
        elif op == "import_cold":
            # a benchmark import (which extends the model in memory and prints it) on a cold cache: the model FILE is
            # unchanged, so every later analysis has to report what a cold run reports
            arch = step["arch"]
            if not sb.readonly:
                for x in sb.companion(arch):
                    os.remove(x)
            for x in sb.homefiles(arch):
                os.remove(x)
            form = "addq-i_r" if env.isa_of(arch) == "x86" else "fmul-vd_vd_vd"
            bench = ("%s-TP: 1.001 (clock cycles)    [DEBUG - result: 0.007813]\n"
                     "%s-LT:    9.013 (clock cycles)    [DEBUG - result: 1.000000]\n" % (form, form))
            rc, out, err = cli.run_subprocess(["--arch", arch, "--import", "ibench"], code=bench, home=sb.home)
            if rc != 0:
                raise Violation("import-fails:" + self.describe(arch), "benchmark import on a cold cache fails",
                                (err or out)[-600:], "exit 0")
            f["imports"] = f.get("imports", 0) + 1
            f["written"].add((arch, sb.current_hash(arch)))
            # the database check of the (unchanged) model file says what it says on a cold cache
            k0 = kernel_code(kernels_for(arch)[0])
            rc2, out2, err2 = cli.run_subprocess(["--arch", arch, "--db-check"], code=k0, home=sb.home)
            key = ("dbcheck", arch, sb.variant[arch], sb.isavariant[env.isa_of(arch)])
            if key not in _REF:
                ref_sb = Sandbox()
                try:
                    ref_sb.set_variant(arch, sb.variant[arch])
                    ref_sb.set_isa_variant(env.isa_of(arch), sb.isavariant[env.isa_of(arch)])
                    _REF[key] = cli.run_subprocess(["--arch", arch, "--db-check"], code=k0, home=ref_sb.home)[:2]
                finally:
                    ref_sb.close()
            if (rc2, out2) != _REF[key]:
                raise Violation("dbcheck-differs:import_cold:" + self.describe(arch), "--db-check after a benchmark "
                                "import on a cold cache differs from --db-check on a cold cache (same model file)",
                                [rc2, (err2 or out2)[-400:]], [_REF[key][0], _REF[key][1][-200:]])
            f["checked"].append(len(self.history))
        elif op == "foreign_version":
            # the cache entry for the current content is replaced by one written in another cache format version
            # (older or newer) whose data differ: it has to be ignored, whatever its version number
            import pickle
            arch = step["arch"]
            h = sb.current_hash(arch)
            files = [x for x in (sb.companion(arch) if step["where"] == "companion" else sb.homefiles(arch)) if h in x]
            if not files or (sb.readonly and step["where"] == "companion"):
                return
            try:
                with open(files[0], "rb") as fh:
                    data = pickle.load(fh)
            except Exception:
                return  # the entry was cut or overwritten by an earlier step of this history: nothing to re-version
            if not isinstance(data, dict) or "internal_version" not in data:
                return
            # always relative to the format version of the code under test (a history may re-version an entry twice)
            from osaca.semantics import MachineModel
            data["internal_version"] = MachineModel.INTERNAL_VERSION + step["delta"]
            for form in data.get("instruction_forms", []):
                try:
                    if form.latency:
                        form.latency = form.latency * 2
                except AttributeError:
                    pass
            for v_ in (data.get("load_latency") or {}):
                data["load_latency"][v_] = data["load_latency"][v_] * 2
            with open(files[0], "wb") as fh:
                pickle.dump(data, fh)
            f["damaged"][arch] = step["where"] + "-version%+d" % step["delta"]
            f.setdefault("runs_after_damage", {})[arch] = 0
        elif op == "race_fs":
            arch = step["arch"]
            if step.get("home"):
                if not sb.readonly and not sb.set_readonly(True):
                    f["skipped_readonly"] += 1
                    return
                shutil.rmtree(sb.cache, ignore_errors=True)
            elif sb.readonly:
                return
            else:
                for x in sb.companion(arch):
                    os.remove(x)
            d = tempfile.mkdtemp(prefix="verif-c17f-")
            p = os.path.join(d, "k.s")
            with open(p, "w") as fh:
                fh.write(kernel_code(step["kernel"]))
            e = env.child_env()
            e["HOME"] = sb.home
            e["VERIF_HITS"] = os.path.join(d, "hits")
            pr = subprocess.run([env.PY, "-c", RACEFS] + argv_for(arch, False) + [p], env=e, capture_output=True,
                                timeout=600)
            hits = ""
            if os.path.exists(e["VERIF_HITS"]):
                with open(e["VERIF_HITS"]) as fh:
                    hits = fh.read()
            shutil.rmtree(d, ignore_errors=True)
            self.check_run(step, pr.returncode, pr.stdout.decode(errors="replace"),
                           pr.stderr.decode(errors="replace"), tagx=":" + ("home" if step.get("home") else "companion"))
            for h_ in hits.split(","):
                if h_:
                    f["race_fs_" + h_] = f.get("race_fs_" + h_, 0) + 1
            f["written"].add((arch, sb.current_hash(arch)))
            f["checked"].append(len(self.history))
        elif op == "api_set":
            # a user model file (addressed by path) is created or its content replaced
            had = step["name"] in sb.uservariant
            sb.set_user(step["name"], step["arch"], step["variant"])
            if had and f.get("api_runs", 0):
                f["edit_after_cache"] = True
        elif op == "api_run":
            name = step["name"]
            if name not in sb.uservariant:
                return
            arch, variant = sb.uservariant[name]
            kernel = kernels_for(arch)[step["k"]]
            rc, out, err = api_run(sb.home, os.path.join(sb.user, name), kernel)
            tag = "api_run:" + ("dotted" if name.count(".") > 1 else "plain")
            others = sorted(n for n in sb.uservariant if n != name)
            if rc != 0 or err.strip():
                raise Violation("run-fails:" + tag, "analysis with the model file %s given by path fails" % name,
                                (err or out)[-600:], "exit 0, empty stderr")
            ref = api_reference(arch, variant, kernel, sb.isavariant[env.isa_of(arch)])
            if report.normalise(out) != ref:
                gl, rl = report.normalise(out).split("\n"), ref.split("\n")
                raise Violation("report-differs:" + tag, "report for model file %s (content: %s variant %s; other "
                                "model files in the directory: %s) differs from the cold-run report for the same "
                                "content" % (name, arch, variant, others),
                                [(a, b) for a, b in zip(gl, rl) if a != b][:3], None)
            f["api_runs"] = f.get("api_runs", 0) + 1
            f["checked"].append(len(self.history))
        elif op == "rm_companion":
            if not sb.readonly:
                for x in sb.companion(step["arch"]):
                    os.remove(x)
        elif op == "rm_home":
            shutil.rmtree(sb.cache, ignore_errors=True)
        elif op == "move_to_home":
            if not sb.readonly:
                os.makedirs(sb.cache, exist_ok=True)
                for x in sb.companion(step["arch"]):
                    shutil.move(x, os.path.join(sb.cache, os.path.basename(x)[1:]))
        elif op == "readonly":
            if not sb.set_readonly(step["on"]):
                f["skipped_readonly"] += 1
        elif op == "edit_isa":
            isa_ = step["isa"]
            if sb.isavariant[isa_] != step["variant"]:
                sb.set_isa_variant(isa_, step["variant"])
                f["edit_after_cache"] = f["edit_after_cache"] or bool(f["runs"])
        elif op == "edit":
            # (an immutable directory still allows rewriting the files in it)
            arch = step["arch"]
            had = bool(sb.companion(arch) or sb.homefiles(arch))
            if sb.variant[arch] != step["variant"]:
                path_ = os.path.join(sb.data, arch + ".yml")
                st_ = os.stat(path_)
                sb.set_variant(arch, step["variant"])
                if step.get("keep_mtime"):
                    # content replaced, time stamps kept (cp -p, rsync -a, tar x): still another content
                    os.utime(path_, ns=(st_.st_atime_ns, st_.st_mtime_ns))
                if had:
                    f["edit_after_cache"] = True
        elif op == "damage":
            arch = step["arch"]
            h = sb.current_hash(arch)
            files = [x for x in (sb.companion(arch) if step["where"] == "companion" else sb.homefiles(arch)) if h in x]
            if not files or (sb.readonly and step["where"] == "companion"):
                return
            x = files[0]
            size = os.path.getsize(x)
            cls = step["cls"]
            if cls == "garbage":
                with open(x, "wb") as fh:
                    fh.write(b"\x00garbage, not a pickle" * 8)
            else:
                n = {"zero": 0, "header": min(size, 1 + step.get("k", 7) % 16), "mid": size // 2,
                     "last": max(0, size - 1)}[cls]
                with open(x, "r+b") as fh:
                    fh.truncate(n)
            f["damaged"][arch] = step["where"] + "-" + cls
            f.setdefault("runs_after_damage", {})[arch] = 0
        elif op == "race":
            arch = step["arch"]
            if not sb.readonly:
                for x in sb.companion(arch):
                    os.remove(x)
            for x in sb.homefiles(arch):
                os.remove(x)
            d = tempfile.mkdtemp(prefix="verif-c17r-")
            p = os.path.join(d, "k.s")
            with open(p, "w") as fh:
                fh.write(kernel_code(step["kernel"]))
            e = env.child_env()
            e["HOME"] = sb.home
            procs = [subprocess.Popen([env.PY, "-m", "osaca"] + argv_for(arch, step.get("fixed", False)) + [p], env=e,
                                      stdout=subprocess.PIPE, stderr=subprocess.PIPE, cwd=d)
                     for _ in range(step["n"])]
            res = [pp.communicate(timeout=900) + (pp.returncode,) for pp in procs]
            shutil.rmtree(d, ignore_errors=True)
            for i, (o, er, rc) in enumerate(res):
                self.check_run(step, rc, o.decode(errors="replace"), er.decode(errors="replace"),
                               tagx=":n%d" % step["n"])
            f["written"].add((arch, sb.current_hash(arch)))
            f["checked"].append(len(self.history))
        else:
            raise core.HarnessError("unknown step " + op)

    def nontrivial(self):
        f = self.facts
        return f["warm_hit_after_write"] or f["edit_after_cache"] or f["two_runs_after_damage"]


def kernels_for(arch):
    return KERNELS[env.isa_of(arch)]


def make_machine(stats, failures_out):
    class CacheMachine(RuleBasedStateMachine):
        def __init__(self):
            super().__init__()
            self.it = Interp()

        def step(self, s):
            try:
                self.it.do(s)
            except Violation as v:
                failures_out.append((list(self.it.history), v))
                raise

        @rule(arch=st.sampled_from(ARCHS), k=st.integers(0, 2), fixed=st.booleans())
        def run(self, arch, k, fixed):
            self.step({"op": "run", "arch": arch, "kernel": kernels_for(arch)[k], "fixed": fixed})

        @rule(arch=st.sampled_from(ARCHS), k=st.integers(0, 2))
        def run_again(self, arch, k):
            self.step({"op": "run", "arch": arch, "kernel": kernels_for(arch)[k], "fixed": False})

        @rule(arch=st.sampled_from(ARCHS), k=st.integers(0, 2))
        def twice(self, arch, k):
            self.step({"op": "twice", "arch": arch, "kernel": kernels_for(arch)[k]})

        @rule(arch=st.sampled_from(ARCHS), k=st.integers(0, 2), which=st.sampled_from(["arch", "arch", "isa"]))
        def edit_inproc(self, arch, k, which):
            self.step({"op": "edit_inproc", "arch": arch, "kernel": kernels_for(arch)[k], "which": which})

        @rule(isa=st.sampled_from(["x86", "aarch64"]), variant=st.sampled_from(["A", "B"]))
        def edit_isa(self, isa, variant):
            self.step({"op": "edit_isa", "isa": isa, "variant": variant})

        @rule(name=st.sampled_from(USER_FILES), arch=st.sampled_from(ARCHS), variant=st.sampled_from(["A", "B"]))
        def api_set(self, name, arch, variant):
            self.step({"op": "api_set", "name": name, "arch": arch, "variant": variant})

        @rule(name=st.sampled_from(USER_FILES), k=st.integers(0, 2))
        def api_run(self, name, k):
            self.step({"op": "api_run", "name": name, "k": k})

        @rule(arch=st.sampled_from(ARCHS), k=st.integers(0, 2))
        def edit_during_load(self, arch, k):
            self.step({"op": "edit_during_load", "arch": arch, "kernel": kernels_for(arch)[k]})

        @rule(arch=st.sampled_from(ARCHS))
        def import_cold(self, arch):
            self.step({"op": "import_cold", "arch": arch})

        @rule(arch=st.sampled_from(ARCHS), where=st.sampled_from(["companion", "home"]), delta=st.sampled_from([1, -1, 7]))
        def foreign_version(self, arch, where, delta):
            self.step({"op": "foreign_version", "arch": arch, "where": where, "delta": delta})

        @rule(arch=st.sampled_from(ARCHS), k=st.integers(0, 2), home=st.booleans())
        def race_fs(self, arch, k, home):
            self.step({"op": "race_fs", "arch": arch, "kernel": kernels_for(arch)[k], "home": home})

        @rule(arch=st.sampled_from(ARCHS))
        def rm_companion(self, arch):
            self.step({"op": "rm_companion", "arch": arch})

        @rule()
        def rm_home(self):
            self.step({"op": "rm_home"})

        @rule(arch=st.sampled_from(ARCHS))
        def move_to_home(self, arch):
            self.step({"op": "move_to_home", "arch": arch})

        @rule(on=st.booleans())
        def readonly(self, on):
            self.step({"op": "readonly", "on": on})

        @rule(arch=st.sampled_from(ARCHS), variant=st.sampled_from(["A", "B"]), keep=st.booleans())
        def edit(self, arch, variant, keep):
            self.step({"op": "edit", "arch": arch, "variant": variant, "keep_mtime": keep})

        @rule(arch=st.sampled_from(ARCHS), where=st.sampled_from(["companion", "home"]),
              cls=st.sampled_from(["zero", "header", "mid", "last", "garbage"]), k=st.integers(0, 15))
        def damage(self, arch, where, cls, k):
            self.step({"op": "damage", "arch": arch, "where": where, "cls": cls, "k": k})

        @rule(arch=st.sampled_from(ARCHS), k=st.integers(0, 2), n=st.sampled_from([2, 4, 8]))
        def race(self, arch, k, n):
            self.step({"op": "race", "arch": arch, "kernel": kernels_for(arch)[k], "n": n})

        def teardown(self):
            it = self.it
            nt = it.nontrivial()
            for upto in it.facts["checked"]:
                stats.evaluations += 1
                if nt:
                    stats.nontrivial.add(core.case_hash(it.history[:upto]))
            for s in it.history:
                stats.classes["op:" + s["op"] + (":" + s.get("cls", "") if s["op"] == "damage" else "")] += 1
            for k in ("warm_hit_after_write", "edit_after_cache", "two_runs_after_damage"):
                if it.facts[k]:
                    stats.classes["history:" + k] += 1
            if it.facts["skipped_readonly"]:
                stats.excluded["readonly-step-skipped(chattr unavailable)"] += it.facts["skipped_readonly"]
            if nt and len(stats.samples) < 4 and it.facts["checked"]:
                stats.samples.append(core.jsonable(it.history))
            it.close()

    return CacheMachine


def fault_enumeration(archs, stats, failures):
    """every offset class x both cache locations x 3 models: write cache, damage it, run twice;
    plus one model edit inside a living process per model"""
    for arch in archs:
        it = Interp()
        hist = [{"op": "run", "arch": arch, "kernel": kernels_for(arch)[0], "fixed": False},
                {"op": "edit_inproc", "arch": arch, "kernel": kernels_for(arch)[0]},
                {"op": "run", "arch": arch, "kernel": kernels_for(arch)[0], "fixed": False},
                {"op": "edit_inproc", "arch": arch, "kernel": kernels_for(arch)[0], "which": "isa"},
                {"op": "run", "arch": arch, "kernel": kernels_for(arch)[0], "fixed": False},
                {"op": "edit_isa", "isa": env.isa_of(arch), "variant": "A"},
                {"op": "run", "arch": arch, "kernel": kernels_for(arch)[1], "fixed": False}]
        try:
            for s_ in hist:
                it.do(s_)
            for upto in it.facts["checked"]:
                stats.evaluations += 1
                stats.nontrivial.add(core.case_hash(it.history[:upto]))
            stats.classes["fault:edit-in-living-process"] += 1
        except Violation as v:
            stats.evaluations += 1
            if v.bucket not in failures:
                failures[v.bucket] = failure_record(ID, {"history": list(it.history)}, v)
        finally:
            it.close()
    # the model file's content is replaced but its time stamps are kept
    for arch in archs:
        it = Interp()
        k0 = kernels_for(arch)[0]
        hist = [{"op": "run", "arch": arch, "kernel": k0, "fixed": False},
                {"op": "edit", "arch": arch, "variant": "B", "keep_mtime": True},
                {"op": "run", "arch": arch, "kernel": k0, "fixed": False},
                {"op": "edit", "arch": arch, "variant": "A", "keep_mtime": True},
                {"op": "run", "arch": arch, "kernel": k0, "fixed": True}]
        try:
            for s_ in hist:
                it.do(s_)
            for upto in it.facts["checked"]:
                stats.evaluations += 1
                stats.nontrivial.add(core.case_hash(it.history[:upto]))
            stats.classes["fault:content-replaced-time-stamps-kept"] += 1
        except Violation as v:
            stats.evaluations += 1
            if v.bucket not in failures:
                failures[v.bucket] = failure_record(ID, {"history": list(it.history)}, v)
        finally:
            it.close()
    # a benchmark import is the first process to load the model (cold cache), analyses follow
    for arch in archs:
        it = Interp()
        hist = [{"op": "import_cold", "arch": arch},
                {"op": "run", "arch": arch, "kernel": kernels_for(arch)[0], "fixed": False},
                {"op": "run", "arch": arch, "kernel": kernels_for(arch)[1], "fixed": True}]
        try:
            for s_ in hist:
                it.do(s_)
            for upto in it.facts["checked"]:
                stats.evaluations += 1
                stats.nontrivial.add(core.case_hash(it.history[:upto]))
            stats.classes["fault:import-on-cold-cache-then-analyses"] += 1
        except Violation as v:
            stats.evaluations += 1
            if v.bucket not in failures:
                failures[v.bucket] = failure_record(ID, {"history": list(it.history)}, v)
        finally:
            it.close()
    # cache entry of another format version (older / newer) with different data under the current content's name
    for arch in archs:
        for where in ("companion", "home"):
            for delta in (1, -1):
                it = Interp()
                k0 = kernels_for(arch)[0]
                hist = [{"op": "run", "arch": arch, "kernel": k0, "fixed": False}]
                if where == "home":
                    hist.append({"op": "move_to_home", "arch": arch})
                hist += [{"op": "foreign_version", "arch": arch, "where": where, "delta": delta},
                         {"op": "run", "arch": arch, "kernel": k0, "fixed": False},
                         {"op": "run", "arch": arch, "kernel": kernels_for(arch)[1], "fixed": True}]
                try:
                    for s_ in hist:
                        it.do(s_)
                    for upto in it.facts["checked"]:
                        stats.evaluations += 1
                        stats.nontrivial.add(core.case_hash(it.history[:upto]))
                    stats.classes["fault:cache-of-another-format-version:%s:%+d" % (where, delta)] += 1
                except Violation as v:
                    stats.evaluations += 1
                    if v.bucket not in failures:
                        failures[v.bucket] = failure_record(ID, {"history": list(it.history)}, v)
                finally:
                    it.close()
    # a cache entry for the previous content of the file sits in the home cache when the edited file is analysed
    for arch in archs:
        for via in ("moved", "readonly"):
            it = Interp()
            k0 = kernels_for(arch)[0]
            if via == "moved":
                hist = [{"op": "run", "arch": arch, "kernel": k0, "fixed": False}, {"op": "move_to_home", "arch": arch},
                        {"op": "edit", "arch": arch, "variant": "B"}, {"op": "run", "arch": arch, "kernel": k0, "fixed": False},
                        {"op": "edit", "arch": arch, "variant": "A"}, {"op": "run", "arch": arch, "kernel": k0, "fixed": True}]
            else:
                hist = [{"op": "readonly", "on": True}, {"op": "run", "arch": arch, "kernel": k0, "fixed": False},
                        {"op": "edit", "arch": arch, "variant": "B"}, {"op": "run", "arch": arch, "kernel": k0, "fixed": False},
                        {"op": "run", "arch": arch, "kernel": k0, "fixed": True}]
            try:
                for s_ in hist:
                    it.do(s_)
                for upto in it.facts["checked"]:
                    stats.evaluations += 1
                    stats.nontrivial.add(core.case_hash(it.history[:upto]))
                stats.classes["fault:older-entry-in-home-cache:" + via] += 1
                if via == "readonly" and it.facts["skipped_readonly"]:
                    stats.excluded["readonly-step-skipped(chattr unavailable)"] += 1
            except Violation as v:
                stats.evaluations += 1
                if v.bucket not in failures:
                    failures[v.bucket] = failure_record(ID, {"history": list(it.history)}, v)
            finally:
                it.close()
    # a competing cold start creates the cache directory / cache file just before this process does
    for arch in archs:
        for home in (True, False):
            it = Interp()
            hist = [{"op": "race_fs", "arch": arch, "kernel": kernels_for(arch)[0], "home": home},
                    {"op": "run", "arch": arch, "kernel": kernels_for(arch)[0], "fixed": False}]
            try:
                for s_ in hist:
                    it.do(s_)
                for upto in it.facts["checked"]:
                    stats.evaluations += 1
                    stats.nontrivial.add(core.case_hash(it.history[:upto]))
                stats.classes["fault:competitor-wins-" + ("mkdir+rename(home cache)" if home else "rename(companion)")] += 1
                for k_ in ("race_fs_mkdir", "race_fs_replace"):
                    if it.facts.get(k_):
                        stats.classes["fault:interleaving-hit:" + k_[8:]] += 1
            except Violation as v:
                stats.evaluations += 1
                if v.bucket not in failures:
                    failures[v.bucket] = failure_record(ID, {"history": list(it.history)}, v)
            finally:
                it.close()
    # the model file changes while a cold-starting process is between parsing it and writing the cache
    for arch in archs:
        it = Interp()
        hist = [{"op": "edit_during_load", "arch": arch, "kernel": kernels_for(arch)[0]},
                {"op": "run", "arch": arch, "kernel": kernels_for(arch)[0], "fixed": False},
                {"op": "run", "arch": arch, "kernel": kernels_for(arch)[1], "fixed": True}]
        try:
            for s_ in hist:
                it.do(s_)
            for upto in it.facts["checked"]:
                stats.evaluations += 1
                stats.nontrivial.add(core.case_hash(it.history[:upto]))
            stats.classes["fault:model-edited-between-parse-and-cache-write"] += 1
        except Violation as v:
            stats.evaluations += 1
            if v.bucket not in failures:
                failures[v.bucket] = failure_record(ID, {"history": list(it.history)}, v)
        finally:
            it.close()
    # model files addressed by path: edit after caching, and two files whose names share a dotted prefix
    for arch in archs:
        for names in (("my.model.yml", "my.model.yml"), ("my.model.yml", "my.other.yml"), ("plain.yml", "plain.yml")):
            it = Interp()
            hist = [{"op": "api_set", "name": names[0], "arch": arch, "variant": "A"},
                    {"op": "api_run", "name": names[0], "k": 0},
                    {"op": "api_set", "name": names[1], "arch": arch, "variant": "B"},
                    {"op": "api_run", "name": names[1], "k": 0},
                    {"op": "api_run", "name": names[0], "k": 0}]
            try:
                for s_ in hist:
                    it.do(s_)
                for upto in it.facts["checked"]:
                    stats.evaluations += 1
                    stats.nontrivial.add(core.case_hash(it.history[:upto]))
                stats.classes["fault:model-by-path:" + ("same-file-edited" if names[0] == names[1] else
                                                        "two-files-shared-prefix")] += 1
            except Violation as v:
                stats.evaluations += 1
                if v.bucket not in failures:
                    failures[v.bucket] = failure_record(ID, {"history": list(it.history)}, v)
            finally:
                it.close()
    for arch in archs:
        for where in ("companion", "home"):
            for cls in ("zero", "header", "mid", "last", "garbage"):
                it = Interp()
                hist = [{"op": "run", "arch": arch, "kernel": kernels_for(arch)[0], "fixed": False}]
                if where == "home":
                    hist.append({"op": "move_to_home", "arch": arch})
                hist += [{"op": "damage", "arch": arch, "where": where, "cls": cls, "k": 7},
                         {"op": "run", "arch": arch, "kernel": kernels_for(arch)[0], "fixed": False},
                         {"op": "run", "arch": arch, "kernel": kernels_for(arch)[1], "fixed": True}]
                try:
                    for s in hist:
                        it.do(s)
                    for upto in it.facts["checked"]:
                        stats.evaluations += 1
                        stats.nontrivial.add(core.case_hash(it.history[:upto]))
                    stats.classes["fault:%s:%s" % (where, cls)] += 1
                    if len(stats.samples) < 2:
                        stats.samples.append(core.jsonable(hist))
                except Violation as v:
                    stats.evaluations += 1
                    if v.bucket not in failures:
                        failures[v.bucket] = failure_record(ID, {"history": list(it.history)}, v)
                finally:
                    it.close()


def plan(tier, seed):
    if tier == "quick":
        shards = [{"kind": "faults", "archs": [a]} for a in ARCHS]
        shards += [{"kind": "machine", "seed": seed * 1000 + 1700 + i, "n": 2, "steps": 10} for i in range(13)]
    else:
        shards = [{"kind": "faults", "archs": [a]} for a in ARCHS]
        shards += [{"kind": "machine", "seed": seed * 1000 + 1700 + i, "n": 45, "steps": 25} for i in range(13)]
    return shards


def run_shard(spec):
    stats = Stats()
    if spec["kind"] == "faults":
        failures = {}
        fault_enumeration(spec["archs"], stats, failures)
        return {"stats": stats.to_dict(), "failures": list(failures.values()), "exhaustive": True}
    found = []
    Machine = make_machine(stats, found)
    try:
        run_state_machine_as_test(
            hypothesis.seed(spec["seed"])(Machine),
            settings=settings(max_examples=spec["n"], stateful_step_count=spec["steps"], deadline=None, database=None,
                              report_multiple_bugs=False, suppress_health_check=list(hypothesis.HealthCheck),
                              phases=[hypothesis.Phase.generate], print_blob=False))
    except Violation:
        pass
    failures = {}
    for hist, v in found:
        if v.bucket not in failures or len(hist) < len(failures[v.bucket]["case"]["history"]):
            failures[v.bucket] = failure_record(ID, {"history": hist}, v)
    return {"stats": stats.to_dict(), "failures": list(failures.values())}


def replay(case):
    it = Interp()
    try:
        for s in case["history"]:
            it.do(s)
    finally:
        it.close()


LEVEL_TEXT = ("Fault enumeration over cache states: every truncation class x cache location x model is enumerated and "
              "each followed by two runs; a rule-based state machine explores longer histories of runs, deletions, "
              "moves, read-only data directory, model edits, damage and racing cold starts in a sandbox HOME.")
LEVEL_NOTE = ("Trusted: the cold-run report as reference; chattr for read-only directories; concurrent cold starts are "
              "sampled, not scheduled.")
TECHNIQUE = "stateful property-based testing (rule-based state machine) with injected cache faults, differential against cold runs"
