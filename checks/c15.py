"""C15 - every shipped model entry is well-formed and can be costed (exhaustive)."""
import io
import os
import re

from lib import core, env
from lib.core import Stats, Violation, failure_record, guard

ID = "C15"
LEVEL = "exploration"
EXHAUSTIVE = True
WARM = None
RULE = (
    "exhaustive enumeration of every instruction form (alias-expanded), every load/store throughput row and "
    "default of all non-empty shipped model files and both ISA databases. Per entry: (1) shape predicate on the "
    "plain-YAML data read independently of OSACA's loader (micro-op list or each alternative = list of "
    "[cycles>=0, non-empty port collection] with every port in the model's port list; throughput/latency absent "
    "or non-negative numbers); (2) MachineModel loads and average_port_pressure costs it; (3) an instruction "
    "synthesised from the entry's own operand pattern (3 variants) is parsed by the real parser and costed by "
    "ArchSemantics without raising; (4) --db-check counts of forms lacking throughput/latency/port pressure == "
    "counts in the plain YAML. Non-trivial: entry with >=2 micro-ops or a multi-character port; distinct = "
    "distinct (model, entry index)."
)
ASSUMPTIONS = [
    "entries whose operand pattern cannot be written in assembly the parser accepts (5 operands, nameless "
    "register class) are shape-checked and costed but not exercised through a synthesised instruction (counted)",
    "--db-check is run for the models small enough to finish within the tier's budget (its duplicate search is "
    "quadratic): quick zen1/tx2/n1, thorough 15 models; in addition on generated model files with duplicate forms and "
    "every combination of missing values",
]
MIN_NONTRIVIAL = {"quick": 2000, "thorough": 2000}


def plain_yaml(path):
    from ruamel.yaml import YAML

    y = YAML(typ="safe", pure=False)
    with open(path) as fh:
        return y.load(fh)


def is_num(x):
    return isinstance(x, (int, float)) and not isinstance(x, bool)


def uops_problem(pp, ports):
    """None if pp is a well-formed micro-op list, else a short description."""
    if not isinstance(pp, (list, tuple)):
        return "not-a-list"
    for u in pp:
        if not isinstance(u, (list, tuple)) or len(u) != 2:
            return "uop-not-a-pair"
        c, ps = u
        if not is_num(c):
            return "cycles-not-a-number"
        if c < 0:
            return "negative-cycles"
        if isinstance(ps, str):
            plist = list(ps)
        elif isinstance(ps, (list, tuple)):
            plist = list(ps)
        else:
            return "ports-not-a-collection"
        if len(plist) == 0:
            return "empty-port-collection"
        for p in plist:
            if p not in ports:
                return "unknown-port:%s" % (p,)
    return None


def entry_problem(e, ports, is_isa):
    if is_isa:
        return None
    if "port_pressure" in e and e["port_pressure"] is not None:
        pp = e["port_pressure"]
        if isinstance(pp, dict):
            if not pp:
                return "empty-alternatives"
            for k, alt in pp.items():
                pr = uops_problem(alt, ports)
                if pr:
                    return "alt:" + pr
        else:
            pr = uops_problem(pp, ports)
            if pr:
                return pr
    for key in ("throughput", "latency"):
        v = e.get(key)
        if v is not None and (not is_num(v) or v < 0):
            return "bad-" + key
    return None


def multi(e):
    pp = e.get("port_pressure")
    if isinstance(pp, dict):
        pp = [u for alt in pp.values() if isinstance(alt, list) for u in alt]
    if not isinstance(pp, list):
        return False
    try:
        return len(pp) >= 2 or any(isinstance(u[1], (list, tuple)) and any(len(str(p)) > 1 for p in u[1])
                                   for u in pp)
    except Exception:
        return False


def expand(forms):
    out = []
    for idx, e in enumerate(forms):
        names = e["name"] if isinstance(e.get("name"), list) else [e.get("name")]
        for n in names:
            out.append((idx, n, e))
    return out


def check_model(spec, stats, failures):
    from lib import entries
    from osaca import utils
    from osaca.parser import ParserAArch64, ParserX86ATT
    from osaca.semantics import ArchSemantics, MachineModel

    name = spec["model"]
    is_isa = name.startswith("isa/")
    path = os.path.join(env.REPO, "osaca", "data", name + ".yml")
    raw = plain_yaml(path)
    ports = [str(p) for p in raw.get("ports", [])] if not is_isa else []
    ports_raw = raw.get("ports", []) if not is_isa else []

    def fail(case, v):
        stats.evaluations += 1
        if v.bucket not in failures:
            failures[v.bucket] = failure_record(ID, case, v)

    # ---- tables and defaults
    if not is_isa:
        for key in ("load_throughput_default", "store_throughput_default"):
            pr = uops_problem(raw.get(key, []), ports_raw)
            case = {"model": name, "table": key}
            if pr:
                fail(case, Violation("%s:%s:%s" % (name, key, pr), "%s of %s is malformed: %s" % (key, name, pr),
                                     core.jsonable(raw.get(key)), "list of [cycles, ports]"))
            else:
                stats.record(case, {"nontrivial": False, "classes": ["table-default"]})
        for key in ("load_throughput", "store_throughput"):
            for i, row in enumerate(raw.get(key) or []):
                case = {"model": name, "table": key, "row": i}
                pr = uops_problem(row.get("port_pressure"), ports_raw)
                if pr:
                    fail(case, Violation("%s:%s:%s" % (name, key, pr), "%s row %d of %s malformed: %s" % (
                        key, i, name, pr), core.jsonable(row), None))
                else:
                    stats.record(case, {"nontrivial": False, "classes": ["table-row"]})

    # ---- model loads through OSACA
    try:
        if is_isa:
            mm = guard(MachineModel, path_to_yaml=utils.find_datafile(name + ".yml"), what="MachineModel")
        else:
            mm = guard(MachineModel, arch=name, what="MachineModel")
    except Violation as v:
        v.bucket = name + ":" + v.bucket
        fail({"model": name, "step": "load"}, v)
        return
    isa = (raw.get("isa") or ("x86" if "x86" in name else "aarch64")).lower()
    parser = ParserX86ATT() if isa == "x86" else ParserAArch64()
    if is_isa:
        arch_for_isa = "zen1" if isa == "x86" else "n1"
        amm = MachineModel(arch=arch_for_isa)
        sem = ArchSemantics(amm)
    else:
        sem = guard(ArchSemantics, mm, what="ArchSemantics")

    forms = expand(raw["instruction_forms"])
    lo, hi = spec.get("lo", 0), spec.get("hi", len(forms))
    for pos, (idx, ename, e) in enumerate(forms):
        if not (lo <= pos < hi):
            continue
        case = {"model": name, "entry": idx, "name": ename}
        cl = ["isa-db" if is_isa else "arch-db"]
        try:
            pr = entry_problem(e, ports_raw, is_isa)
            if pr:
                raise Violation("%s:shape:%s" % (name, pr), "entry %s (#%d) of %s is malformed: %s" % (
                    ename, idx, name, pr), core.jsonable({k: e.get(k) for k in (
                        "port_pressure", "throughput", "latency")}), "well-formed entry")
            if not is_isa and e.get("port_pressure") is not None:
                guard(mm.average_port_pressure, e["port_pressure"], what="average_port_pressure")
            # an instruction written with operands of exactly the kinds this entry declares
            import copy as _copy
            ops = []
            for o in _copy.deepcopy(e.get("operands") or []):
                guard(mm.operand_to_class, o, ops, what="operand_to_class")
            done = 0
            for v_ in range(3):
                try:
                    text = entries.entry_text(isa, str(ename), ops, v_)
                except entries.Unsupported:
                    cl.append("pattern-not-expressible")
                    break
                try:
                    line = parser.parse_line(text, 1)
                except Exception:
                    cl.append("synthesised-text-not-parsable")
                    continue
                if line.mnemonic is None:
                    cl.append("synthesised-text-not-parsable")
                    continue
                guard(sem.assign_src_dst, line, what="assign_src_dst(%s)" % text)
                guard(sem.assign_tp_lt, line, what="assign_tp_lt(%s)" % text)
                if is_isa:
                    # the semantic roles (hidden operands included) are what the dependency analysis consumes:
                    # a two-line kernel of the instruction goes through graph, critical path and LCD search
                    from osaca.semantics import KernelDG
                    kern = guard(parser.parse_file, text + "\n" + text + "\n", what="parse_file")
                    guard(sem.add_semantics, kern, what="add_semantics(%s)" % text)
                    for fd in (False, True):
                        dg = guard(KernelDG, kern, parser, amm, sem, timeout=-1, flag_dependencies=fd,
                                   what="KernelDG(%s)" % text)
                        guard(dg.get_critical_path, what="get_critical_path(%s)" % text)
                        guard(dg.get_loopcarried_dependencies, what="get_loopcarried_dependencies(%s)" % text)
                    cl.append("isa-entry-through-dependency-analysis")
                done += 1
            if done:
                cl.append("costed-through-synthesised-instruction")
            if done and isa != "x86" and not is_isa:
                # the same instruction with a lane shape on every register the entry leaves un-shaped: it need not
                # match any form, but looking it up must end in a form or in "unknown", never in an exception
                import re as _re
                t0 = entries.entry_text(isa, str(ename), ops, 0)
                t1 = _re.sub(r"\bp(\d+)(?:/[mz])?(?![\w./])", r"p\1.d", t0)
                t1 = _re.sub(r"\bz(\d+)(?![\w.])", r"z\1.d", t1)
                t1 = _re.sub(r"\bv(\d+)(?![\w.])", r"v\1.2d", t1)
                if t1 != t0:
                    try:
                        nline = parser.parse_line(t1, 1)
                    except Exception:
                        nline = None
                    if nline is not None and nline.mnemonic is not None:
                        guard(sem.assign_src_dst, nline, what="assign_src_dst(%s)" % t1)
                        guard(sem.assign_tp_lt, nline, what="assign_tp_lt(%s)" % t1)
                        cl.append("shaped-variant-of-unshaped-entry-looked-up")
        except Violation as v:
            if v.bucket.startswith("crash"):
                v.bucket = name + ":" + v.bucket
            fail(case, v)
            continue
        stats.record(case, {"nontrivial": multi(e), "classes": cl,
                            "sample": {"model": name, "name": ename, "port_pressure": e.get("port_pressure"),
                                       "throughput": e.get("throughput"), "latency": e.get("latency")}})


def db_check_counts(arch):
    """counts printed by --db-check vs counts in the plain YAML"""
    from osaca.db_interface import sanity_check

    raw = plain_yaml(os.path.join(env.REPO, "osaca", "data", arch + ".yml"))
    forms = expand(raw["instruction_forms"])
    exp = {
        "total": len(forms),
        "throughput": sum(1 for _, _, e in forms if e.get("throughput") is None),
        "latency": sum(1 for _, _, e in forms if e.get("latency") is None),
        "port pressure": sum(1 for _, _, e in forms if e.get("port_pressure") is None),
    }
    out = io.StringIO()
    guard(sanity_check, arch, verbose=False, output_file=out, what="sanity_check")
    text = out.getvalue()
    got = {}
    for key, pat in (("throughput", r"\((\d+)/(\d+)\) of instruction forms have no throughput value"),
                     ("latency", r"\((\d+)/(\d+)\) of instruction forms have no latency value"),
                     ("port pressure", r"\((\d+)/(\d+)\) of instruction forms have no port pressure")):
        m = re.search(pat, text)
        if not m:
            raise Violation("dbcheck:format", "--db-check output lacks the %s line" % key, text[:400], None)
        got[key] = int(m.group(1))
        got["total"] = int(m.group(2))
    if got != exp:
        raise Violation("dbcheck:counts:" + arch, "--db-check counts differ from the numbers present in the "
                        "model file", got, exp)
    return exp


def cli_sample(spec, stats, failures):
    """the CLI path (parse, semantics, two balancing passes, graph, report) on kernels of synthesised instructions"""
    from lib import cli, entries
    from osaca.parser import ParserAArch64, ParserX86ATT
    from osaca.semantics import MachineModel

    for name in spec["models"]:
        mm = guard(MachineModel, arch=name, what="MachineModel")
        isa = mm.get_ISA()
        parser = ParserX86ATT() if isa == "x86" else ParserAArch64()
        forms = [(n, i, f) for n, fs in mm._data["instruction_forms_dict"].items() for i, f in enumerate(fs)]
        step = spec["step"]
        batch = []
        for k in range(spec["offset"] % step, len(forms), step):
            n, i, f = forms[k]
            try:
                text = entries.entry_text(isa, n, f.operands, k % 3)
                if parser.parse_line(text, 1).mnemonic is None:
                    continue
            except Exception:
                continue
            batch.append((n, i, text))
        for j in range(0, len(batch), 4):
            grp = batch[j:j + 4]
            case = {"model": name, "cli_kernel": [t for _, _, t in grp]}
            try:
                guard(cli.run_inprocess, ["--arch", name, "--ignore-unknown", "--lcd-timeout", "5"],
                      "\n".join(case["cli_kernel"]) + "\n", what="osaca --arch %s on %r" % (name, case["cli_kernel"]))
                stats.record(case, {"nontrivial": True, "classes": ["cli-path"], "sample": case})
            except Violation as v:
                stats.evaluations += 1
                v.bucket = name + ":cli:" + v.bucket
                if v.bucket not in failures:
                    failures[v.bucket] = failure_record(ID, case, v)


def synthetic_dbcheck(spec, stats, failures):
    """--db-check on generated model files (served from a data directory that precedes the package data): forms with
    throughput / latency / port pressure missing in every combination, duplicate forms whose copies differ in what
    they lack, alias-name lists"""
    import tempfile
    from hypothesis import strategies as st
    from lib import synth
    from lib.core import hyp_search
    from osaca import utils
    from osaca.db_interface import sanity_check
    from osaca.semantics import MachineModel

    d = tempfile.mkdtemp(prefix="verif-c15-data-")
    utils.DATA_DIRS.insert(0, d)
    kinds = [{"class": "register", "name": "gpr"}, {"class": "register", "name": "xmm"},
             {"class": "immediate", "imd": "int"},
             {"class": "memory", "base": "*", "offset": "*", "index": "*", "scale": "*"}]

    @st.composite
    def models(draw):
        forms = []
        for i in range(draw(st.integers(1, 10))):
            nm = draw(st.sampled_from(["fa", "fb", "fc", "vfmx", "fd"]))
            ops = [draw(st.sampled_from(kinds)) for _ in range(draw(st.integers(0, 3)))]
            f = {"name": nm, "operands": ops,
                 "throughput": draw(st.sampled_from([1.0, 0.5, None, None])),
                 "latency": draw(st.sampled_from([1.0, 4.0, None, None])),
                 "port_pressure": draw(st.sampled_from([[[1, "01"]], [], None]))}
            forms.append(f)
            if draw(st.integers(0, 2)) == 0:  # a duplicate of the same form lacking other values
                g = dict(f, throughput=draw(st.sampled_from([1.0, None])), latency=draw(st.sampled_from([2.0, None])),
                         port_pressure=draw(st.sampled_from([[[1, "0"]], None])))
                forms.insert(draw(st.integers(0, len(forms))), g)
        return forms

    def check(forms):
        top = synth.arch_model("x86", ["0", "1"], forms)
        top["arch_code"] = "zen1"
        with open(os.path.join(d, "zen1.yml"), "w") as fh:
            fh.write(synth.yaml_doc(top))
        for f in os.listdir(d):
            if f.endswith(".pickle"):
                os.remove(os.path.join(d, f))
        MachineModel._runtime_cache.clear()
        out = io.StringIO()
        guard(sanity_check, "zen1", verbose=False, output_file=out, what="sanity_check")
        text = out.getvalue()
        exp = {"throughput": sum(1 for f in forms if f["throughput"] is None),
               "latency": sum(1 for f in forms if f["latency"] is None),
               "port pressure": sum(1 for f in forms if f["port_pressure"] is None), "total": len(forms)}
        got = {}
        for key in ("throughput", "latency", "port pressure"):
            m = re.search(r"\((\d+)/(\d+)\) of instruction forms have no %s" % key, text)
            if not m:
                raise Violation("dbcheck:format", "--db-check output lacks the %s line" % key, text[:300], None)
            got[key], got["total"] = int(m.group(1)), int(m.group(2))
        if got != exp:
            raise Violation("dbcheck:counts:synthetic", "--db-check counts differ from the numbers present in the "
                            "model file", got, exp)
        dup = len(forms) != len({(f["name"], core.case_hash(f["operands"])) for f in forms})
        return {"nontrivial": dup and sum(exp[k] for k in ("throughput", "latency", "port pressure")) > 0,
                "classes": ["db-check:synthetic"] + (["db-check:duplicates"] if dup else []), "key": forms,
                "sample": {"db-check-synthetic": forms[:4], "counts": exp}}

    try:
        fs = hyp_search(ID, models(), check, stats, seed=spec["seed"], max_examples=spec["n"])
        for f in fs:
            failures[f["bucket"]] = f
    finally:
        utils.DATA_DIRS.remove(d)
        import shutil
        shutil.rmtree(d, ignore_errors=True)


def plan(tier, seed):
    shards = []
    big = {"icl": 4, "ivb": 3, "snb": 2, "hsw": 2, "icx": 2, "zen2": 2}
    for a in env.ALL_ARCHS + ["isa/x86", "isa/aarch64"]:
        parts = big.get(a, 1)
        for i in range(parts):
            shards.append({"kind": "model", "model": a, "part": i, "parts": parts})
    step = 80 if tier == "quick" else 1
    for g in ([["zen1", "spr", "tx2", "n1"], ["zen4", "hsw", "a64fx", "v2"], ["zen2", "zen3", "m1", "a72"],
               ["icx", "snb", "tsv110"], ["icl"], ["ivb"]]):
        shards.append({"kind": "cli", "models": g, "step": step, "offset": seed})
    shards.append({"kind": "dbcheck-synthetic", "seed": seed * 1000 + 1500, "n": 60 if tier == "quick" else 1500})
    for a in (["zen1", "tx2", "n1"] if tier == "quick" else ["zen1", "tx2", "n1", "a64fx", "spr", "zen4", "m1",
                                                              "v2", "tsv110", "a72", "zen3", "snb", "hsw", "zen2",
                                                              "icx"]):
        shards.append({"kind": "dbcheck", "arch": a})
    return shards


def run_shard(spec):
    stats = Stats()
    failures = {}
    if spec["kind"] == "dbcheck-synthetic":
        synthetic_dbcheck(spec, stats, failures)
        return {"stats": stats.to_dict(), "failures": list(failures.values()), "exhaustive": False}
    if spec["kind"] == "cli":
        cli_sample(spec, stats, failures)
        return {"stats": stats.to_dict(), "failures": list(failures.values()), "exhaustive": spec["step"] == 1}
    if spec["kind"] == "dbcheck":
        case = {"dbcheck": spec["arch"]}
        try:
            exp = db_check_counts(spec["arch"])
            stats.record(case, {"nontrivial": False, "classes": ["db-check"],
                                "sample": {"db-check": spec["arch"], "counts": exp}})
        except Violation as v:
            stats.evaluations += 1
            failures[v.bucket] = failure_record(ID, case, v)
        return {"stats": stats.to_dict(), "failures": list(failures.values()), "exhaustive": True}
    raw = plain_yaml(os.path.join(env.REPO, "osaca", "data", spec["model"] + ".yml"))
    n = len(expand(raw["instruction_forms"]))
    spec = dict(spec, lo=spec["part"] * n // spec["parts"], hi=(spec["part"] + 1) * n // spec["parts"])
    check_model(spec, stats, failures)
    return {"stats": stats.to_dict(), "failures": list(failures.values()), "exhaustive": True}


def replay(case):
    stats, failures = Stats(), {}
    if "dbcheck" in case:
        db_check_counts(case["dbcheck"])
        return
    if isinstance(case, list):
        st_, fl_ = Stats(), {}
        # a generated model of the synthetic --db-check part
        import tempfile
        from lib import synth
        from osaca import utils
        from osaca.db_interface import sanity_check
        from osaca.semantics import MachineModel
        d = tempfile.mkdtemp(prefix="verif-c15-data-")
        utils.DATA_DIRS.insert(0, d)
        try:
            top = synth.arch_model("x86", ["0", "1"], case)
            top["arch_code"] = "zen1"
            with open(os.path.join(d, "zen1.yml"), "w") as fh:
                fh.write(synth.yaml_doc(top))
            MachineModel._runtime_cache.clear()
            out = io.StringIO()
            guard(sanity_check, "zen1", verbose=False, output_file=out, what="sanity_check")
            text = out.getvalue()
            for key, attr in (("throughput", "throughput"), ("latency", "latency"), ("port pressure", "port_pressure")):
                m = re.search(r"\((\d+)/(\d+)\) of instruction forms have no %s" % key, text)
                exp = sum(1 for f in case if f[attr] is None)
                if not m or int(m.group(1)) != exp:
                    raise Violation("dbcheck:counts:synthetic", "--db-check count of forms without %s" % key,
                                    m.group(1) if m else None, exp)
        finally:
            utils.DATA_DIRS.remove(d)
        return
    if "cli_kernel" in case:
        from lib import cli
        guard(cli.run_inprocess, ["--arch", case["model"], "--ignore-unknown", "--lcd-timeout", "5"],
              "\n".join(case["cli_kernel"]) + "\n", what="osaca --arch %s" % case["model"])
        return
    raw = plain_yaml(os.path.join(env.REPO, "osaca", "data", case["model"] + ".yml"))
    forms = expand(raw["instruction_forms"])
    if "entry" in case:
        pos = [j for j, (i, n, e) in enumerate(forms) if i == case["entry"]]
        spec = {"model": case["model"], "lo": min(pos) if pos else 0, "hi": (max(pos) + 1) if pos else 0}
    else:
        spec = {"model": case["model"], "lo": 0, "hi": 0}
    check_model(spec, stats, failures)
    for f in failures.values():
        if "entry" in case or f["case"].get("table") == case.get("table"):
            raise Violation(f["bucket"], f["clause"], f["observed"], f["expected"])


LEVEL_TEXT = ("Complete enumeration of all shipped entries (about 18,000 instruction forms, all table rows and "
              "defaults): for this finite configuration space exhaustive checking decides the property for the "
              "working tree's data files.")
LEVEL_NOTE = ("Trusted: the shape predicate, ruamel's safe loader as independent reader, the entry-to-assembly "
              "synthesiser (lib/entries.py).")
TECHNIQUE = "exhaustive enumeration of shipped model entries against a shape predicate and a does-not-raise costing oracle"
