"""C01(b): kernels of instructions synthesised from the entries of shipped models, three scheduling modes.

Micro-op lists are those OSACA reports for the instruction (their assignment is C07/C08's subject); checked here: every
reported micro-op names ports of the model, the per-instruction pressure is a feasible split of those micro-ops (Hall),
totals are the column sums.  Composed memory forms on models with load/store multipliers (zen1, a64fx) are skipped
(their pressure is scaled, the micro-op list is not) and counted."""
from hypothesis import strategies as st

from lib import core, entries, env, ports
from lib.core import Stats, Violation, guard, hyp_search

ID = "C01"
MULT = {"zen1", "a64fx"}
_M = {}


def model(arch):
    from osaca.parser import ParserAArch64, ParserX86ATT
    from osaca.semantics import ArchSemantics, MachineModel

    if arch not in _M:
        if len(_M) > 1:
            _M.clear()
        mm = guard(MachineModel, arch=arch, what="MachineModel")
        sem = guard(ArchSemantics, mm, what="ArchSemantics")
        forms = []
        for name, fs in mm._data["instruction_forms_dict"].items():
            for i, f in enumerate(fs):
                forms.append((name, i))
        _M[arch] = (mm, sem, forms, ParserX86ATT() if env.isa_of(arch) == "x86" else ParserAArch64())
    return _M[arch]


@st.composite
def cases(draw, archs):
    arch = draw(st.sampled_from(archs))
    n = draw(st.integers(2, 9))
    picks = [[draw(st.integers(0, 10 ** 6)), draw(st.integers(0, 2))] for _ in range(n)]
    return {"kind": "shipped", "arch": arch, "picks": picks,
            "mode": draw(st.sampled_from(["uniform", "opt1", "opt2", "opt2"]))}


def check_case(case):
    from osaca.semantics import ArchSemantics

    arch = case["arch"]
    mm, sem, forms, parser = model(arch)
    isa = env.isa_of(arch)
    lines = []
    for k, v in case["picks"]:
        name, i = forms[k % len(forms)]
        f = mm._data["instruction_forms_dict"][name][i]
        pp = f.port_pressure
        if isinstance(pp, dict):
            pp = [u for alt in pp.values() for u in alt]
        try:
            if pp and max(float(c) for c, _ in pp) > 64:
                continue  # WBINVD-like entries: 100*cycles balancing steps each, skipped for cost
            text = entries.entry_text(isa, name, f.operands, v)
        except (entries.Unsupported, TypeError, ValueError):
            continue
        if k % 4 == 1 and isa == "x86" and " " in text:
            # all operands the same register (xor %eax, %eax; vxorpd %ymm0, %ymm0, %ymm0): zero idioms are
            # instructions like any other as far as their port pressure is concerned
            mn_, rest_ = text.split(" ", 1)
            ops_ = [o.strip() for o in rest_.split(",")]
            if len(ops_) >= 2 and all(o.startswith("%") for o in ops_):
                text = mn_ + " " + ", ".join([ops_[-1]] * len(ops_))
        try:
            pl = parser.parse_line(text, 1)
        except Exception:
            continue
        if pl.mnemonic is None:
            continue
        lines.append(text)
    if not lines:
        return {"nontrivial": False, "classes": ["shipped:empty"]}
    kernel = guard(parser.parse_file, "\n".join(lines) + "\n", what="parse_file")
    guard(sem.add_semantics, kernel, what="add_semantics(%s)" % arch)
    plist = list(mm.get_ports())
    uniform = [list(i.port_pressure) for i in kernel]
    passes = {"uniform": 0, "opt1": 1, "opt2": 2}[case["mode"]]
    for _ in range(passes):
        guard(sem.assign_optimal_throughput, kernel, what="assign_optimal_throughput(%s)" % arch)
    colsum = [0.0] * len(plist)
    moved = False
    excluded = {}
    overlap = False
    for idx, iform in enumerate(kernel):
        rep = iform.port_uops
        if isinstance(rep, dict):
            rep = rep[sorted(rep)[0]]
        try:
            uops = ports.norm_uops(rep)
        except Exception:
            raise Violation("shipped-uops:" + arch, "micro-op list of %r is malformed" % iform.line, core.jsonable(rep), None)
        for c, ps in uops:
            for q in ps:
                if q not in plist:
                    raise Violation("shipped-port:" + arch, "micro-op of %r names port %r which the model does not have" % (
                        iform.line, q), core.jsonable(uops), plist)
        p = list(iform.port_pressure)
        composed = "performs_load" in iform.flags and "is_load_instruction" not in iform.flags or \
            ("performs_store" in iform.flags and len(uops) and arch in MULT)
        if arch in MULT and composed:
            excluded["composed-on-multiplier-model"] = excluded.get("composed-on-multiplier-model", 0) + 1
        elif case["mode"] == "opt2" and ports.overlapping_different(uops):
            excluded["F-C01-1"] = excluded.get("F-C01-1", 0) + 1
            tot = [(sum(c for c, _ in uops), frozenset().union(*[ps for _, ps in uops]))] if uops else []
            d, why = ports.hall_deficit(p, tot, plist)
            if d > ports.opt_tolerance(uops, passes):
                raise Violation("shipped-feasible-weak:" + arch, "%r: %s" % (iform.line, why), p, core.jsonable(uops))
        else:
            tol = 1e-9 if passes == 0 else ports.opt_tolerance(uops, passes)
            d, why = ports.hall_deficit(p, uops, plist)
            if d > tol:
                raise Violation("shipped-feasible:%s:%s" % (case["mode"], arch), "%r on %s: %s (deficit %.4f > %.4f)" % (
                    iform.line, arch, why, d, tol), p, core.jsonable(uops))
        ss = [ps for _, ps in uops]
        if any(a & b for i, a in enumerate(ss) for b in ss[i + 1:]):
            overlap = True
        if any(abs(a - b) > 1e-9 for a, b in zip(p, uniform[idx])):
            moved = True
        if iform.throughput != 0.0:
            colsum = [a + b for a, b in zip(colsum, p)]
    tot = guard(ArchSemantics.get_throughput_sum, kernel, what="get_throughput_sum")
    if any(abs(a - b) > 0.005 + 1e-9 for a, b in zip(tot, colsum)) or len(tot) != len(plist):
        raise Violation("shipped-totals:" + arch, "per-port totals are not the column sums", list(tot), colsum)
    nt = overlap if passes == 0 else moved
    return {"nontrivial": nt, "classes": ["shipped", "shipped:" + arch, "shipped:" + case["mode"]],
            "excluded": excluded, "key": [arch, lines, case["mode"]],
            "sample": {"arch": arch, "mode": case["mode"], "kernel": lines}}


def plan(tier, seed):
    n = {"quick": 60, "thorough": 3000}[tier]
    groups = [["zen2", "tx2"], ["spr", "n1"], ["hsw", "a64fx"], ["zen4", "v2"]]
    if tier == "thorough":
        groups = [["snb", "tx2"], ["ivb", "n1"], ["hsw", "a64fx"], ["icl", "tsv110"], ["icx", "a72"], ["spr", "m1"],
                  ["zen1", "v2"], ["zen2", "zen3"], ["zen4", "n1"]]
    return [{"kind": "shipped", "archs": g, "seed": seed * 1000 + 150 + i, "n": n} for i, g in enumerate(groups)]


def run_shard(spec):
    stats = Stats()
    failures = hyp_search(ID, cases(spec["archs"]), check_case, stats, seed=spec["seed"], max_examples=spec["n"])
    return {"stats": stats.to_dict(), "failures": failures}
