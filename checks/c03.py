"""C03 - register dependency graph is exactly the read-after-write relation."""
import os

from lib import core, deps, synth
from lib.core import Stats, Violation, guard, hyp_search

ID = "C03"
LEVEL = "exploration"
WARM = None
RULE = (
    "Hypothesis-generated synthetic ISA semantic databases (per-operand source/destination roles, hidden flag "
    "operands, zero idioms, forms without ISA entry, mnemonics unknown to both databases) and latency models "
    "for both ISA flavours x kernels of 2-14 lines over a small register pool mixing widths of one register "
    "(rax/eax/al, rbp/ebp, r8/r8d, xmm0/ymm0/zmm0; w3/x3, s1/d1/q1/v1), memory operands whose address registers "
    "are read, AArch64 pre-/post-index write-back, composed loads, comment/label noise, with and without flag "
    "dependencies; plus a curated vocabulary of real instructions on shipped models. Oracle: independently "
    "computed RAW-with-kill relation (both inclusions), edges forward, weight in the candidate set. "
    "Non-trivial: kernel has >=1 edge and (a dependency killed by an intermediate overwrite or an edge between "
    "different spellings of one register). Distinct = distinct (ISA db, kernel, flag option)."
)
ASSUMPTIONS = [
    "store/load displacements are drawn from disjoint residue classes so that no store-to-load edge is possible "
    "(C06 decides those); AArch64 store->load pairs through one base register with write-back in between are "
    "not asserted either way (counted as uncertain_pairs)",
    "AArch64 memory operands that are both source and destination never carry write-back (no such form exists)",
    "when one producer/consumer pair has two reasons with different weights, either weight is accepted",
]
MIN_NONTRIVIAL = {"quick": 300, "thorough": 3000}


class Runner:
    def __init__(self):
        from osaca.parser import ParserAArch64, ParserX86ATT

        self.wd = synth.Workdir()
        self.parsers = {"x86": ParserX86ATT(), "aarch64": ParserAArch64()}

    def build(self, case, text=None, timeout=-1, dg_class=None):
        """-> (kernel, KernelDG, mm, sem); model files are removed again."""
        from osaca.semantics import KernelDG

        if dg_class is not None:
            KernelDG = dg_class
        from checks.c01 import _rm

        arch, isa = deps.model_dicts(case)
        pa = self.wd.write(arch)
        pi = self.wd.write(isa, stem="isa")
        try:
            mm, sem = guard(synth.load_arch, pa, pi, what="model load")
            parser = self.parsers[case["isa"]]
            kernel = guard(parser.parse_file, deps.kernel_text(case) if text is None else text,
                           what="parse_file")
            guard(sem.add_semantics, kernel, what="add_semantics")
            dg = guard(KernelDG, kernel, parser, mm, sem, timeout=timeout,
                       flag_dependencies=case["flagdeps"], what="KernelDG")
            return kernel, dg, mm, sem
        finally:
            _rm(pa)
            _rm(pi)

    def close(self):
        self.wd.close()


_R = {}


def runner():
    if "r" not in _R:
        _R["r"] = Runner()
    return _R["r"]


def observed_edges(case, dg):
    fl = case.get("first_line", 0)
    got, loadnodes = {}, {}
    for a, b, dt in dg.dg.edges(data=True):
        if a != int(a):
            loadnodes[int(a) - fl - 1] = (int(b) - fl - 1, dt["latency"])
            continue
        got[(int(a) - fl - 1, int(b) - fl - 1)] = dt["latency"]
    return got, loadnodes


def edge_reasons(case, info, a, b):
    ia, ib = info[a], info[b]
    rs = set()
    if ia["W"] & (ib["R"] | ib["WB"]):
        rs.add("reg")
    if ia["WB"] & (ib["R"] | ib["WB"]):
        rs.add("writeback")
    if case["flagdeps"] and ia["WF"] & ib["RF"]:
        rs.add("flag")
    return "+".join(sorted(rs)) or "none"


def compare_graph(case, dg):
    """Raises Violation on disagreement; returns (E, info, facts)"""
    E, info = deps.ref_edges(case)
    unc = deps.uncertain_pairs(case, info)
    got, loadnodes = observed_edges(case, dg)
    isa = case["isa"]
    for (a, b) in got:
        if not a < b:
            raise Violation("backward-edge", "edge does not point forward in program order", [a, b], None)
    for (a, b), ws in sorted(E.items()):
        if (a, b) in unc:
            continue
        if (a, b) not in got:
            raise Violation("missing:%s:%s" % (isa, edge_reasons(case, info, a, b)),
                            "no edge from line %d to line %d although it reads what the former writes "
                            "(%s)" % (a, b, edge_reasons(case, info, a, b)), sorted(got), [a, b])
        if not any(abs(got[(a, b)] - w) < 1e-9 for w in ws):
            raise Violation("weight:%s:%s" % (isa, edge_reasons(case, info, a, b)),
                            "edge %d->%d carries latency %r, expected one of %r" % (a, b, got[(a, b)], sorted(ws)),
                            got[(a, b)], sorted(ws))
    for (a, b) in sorted(got):
        if (a, b) not in E and (a, b) not in unc:
            kind = "noinstr" if info[a] is None or info[b] is None else (
                "zeroidiom" if info[b]["zero_idiom"] else "plain")
            raise Violation("extra:%s:%s" % (isa, kind),
                            "edge from line %d to line %d without a read-after-write relation" % (a, b),
                            [a, b], sorted(E))
    for i, inf in enumerate(info):
        if inf is None:
            continue
        if inf["composed"] and inf["load"] is not None:
            if i not in loadnodes or loadnodes[i][0] != i:
                raise Violation("loadnode-missing:" + isa, "composed load without separate load stage node",
                                sorted(loadnodes), i)
            if abs(loadnodes[i][1] - inf["load"]) > 1e-9:
                raise Violation("loadnode-weight:" + isa, "load stage edge weight != load latency",
                                loadnodes[i][1], inf["load"])
        elif i in loadnodes:
            if not inf["unknown"] or abs(loadnodes[i][1]) > 1e-9:
                raise Violation("loadnode-extra:" + isa, "separate load node for an instruction served by a "
                                "direct entry", loadnodes[i], None)
    return E, info, {"uncertain": len(unc), "edges": len(E)}


def facts(case, E, info):
    """non-triviality and class labels"""
    n = len(info)
    kill = alias = False
    for a in range(n):
        if info[a] is None:
            continue
        for r in info[a]["W"] | info[a]["WB"]:
            killed = False
            for b in range(a + 1, n):
                if info[b] is None:
                    continue
                if killed and (r in info[b]["R"]):
                    kill = True
                if r in info[b]["W"] or r in info[b]["WB"]:
                    killed = True
    for (a, b) in E:
        for r in (info[a]["W"] | info[a]["WB"]) & (info[b]["R"] | info[b]["WB"]):
            wn = info[a]["Wn"].get(r, set())
            rn = info[b]["Rn"].get(r, set())
            if wn and rn and (wn != rn or len(wn) > 1):
                alias = True
    cl = [case["isa"], "flagdeps" if case["flagdeps"] else "noflags"]
    if kill:
        cl.append("kill-matters")
    if alias:
        cl.append("alias-edge")
    if any(i and i["composed"] and i["load"] is not None for i in info):
        cl.append("composed-load")
    if any(i and i["WB"] for i in info):
        cl.append("write-back")
    if any(i and i["unknown"] for i in info):
        cl.append("unknown-mnemonic")
    if any(i and i["zero_idiom"] for i in info):
        cl.append("zero-idiom")
    if any(len(ws) > 1 for ws in E.values()):
        cl.append("multi-reason-edge")
    if any(i is None for i in info):
        cl.append("noise-lines")
    return bool(E) and (kill or alias), cl


def check_case(case):
    if case.get("kind") == "real":
        from checks import c03_real
        return c03_real.check_case(case)
    kernel, dg, mm, sem = runner().build(case)
    E, info, f = compare_graph(case, dg)
    nt, cl = facts(case, E, info)
    return {"nontrivial": nt, "classes": cl, "key": [case["forms"], case["kernel"], case["flagdeps"]],
            "excluded": {"uncertain_store_load_pairs": f["uncertain"]} if f["uncertain"] else {},
            "sample": {"isa": case["isa"], "kernel": deps.kernel_text(case).strip().split("\n"),
                       "forms": case["forms"], "flagdeps": case["flagdeps"],
                       "edges": sorted([a, b, sorted(w)] for (a, b), w in E.items())}}


def plan(tier, seed):
    n = {"quick": 260, "thorough": 12000}[tier]
    shards = []
    for i in range(14):
        shards.append({"kind": "synthetic", "isa": "x86" if i % 2 == 0 else "aarch64",
                       "seed": seed * 1000 + 300 + i, "n": n, "max_len": 14 if i % 4 < 2 else 8})
    try:
        from checks import c03_real
        shards += c03_real.plan(tier, seed)
    except ImportError:
        pass
    return shards


def run_shard(spec):
    if spec["kind"] == "real":
        from checks import c03_real
        return c03_real.run_shard(spec)
    stats = Stats()
    strat = deps.dep_cases(isa=spec["isa"], max_len=spec["max_len"], big_lines=False)
    failures = hyp_search(ID, strat, check_case, stats, seed=spec["seed"], max_examples=spec["n"])
    runner().close()
    return {"stats": stats.to_dict(), "failures": failures}


def replay(case):
    return check_case(case)


LEVEL_TEXT = ("Randomised differential testing (Hypothesis, seeded shards) of the dependency graph against an "
              "independent read-after-write model computed from the generated ISA specification, for both ISA "
              "flavours; evidence proportional to the counts reported.")
LEVEL_NOTE = ("Trusted: the reference RAW model in lib/deps.py and the hand-written role table of the curated "
              "real vocabulary; the decidable-domain exclusions listed under assumptions.")
TECHNIQUE = "property-based differential testing against a reference read-after-write-with-kill relation"
