"""C16 - LCD result is independent of process scheduling and worker count."""
import os

from hypothesis import strategies as st

from lib import cli, core, corpus, deps, env, report, sched
from lib.core import Stats, Violation, failure_record, guard, hyp_search

ID = "C16"
LEVEL = "exploration"
WARM = None
MAX_PARALLEL = 8
RULE = (
    "(a) generated kernels (as in C03, 3-10 lines) forced through the multi-process search (threshold patched to 1) "
    "and shipped kernels padded with independent instructions to 45-120 lines (real threshold) x worker counts "
    "{1,2,3,5,16, length+3} (kernel_dg.cpu_count patched) x generated per-chunk start delays in a KernelDG subclass "
    "(the harness owns the completion order: increasing, reversed, random); oracle: the result (keys, their order, "
    "latencies, member lines with per-edge latencies, roots) equals the single-process result. (b) the CLI run three "
    "times on a padded kernel with different PYTHONHASHSEED values: reports byte-identical apart from the timestamp. "
    "Non-trivial: >=2 chunks contain members of loop-carried dependencies and the chunks finish in an order "
    "different from their start order. Distinct = distinct (kernel, worker count, delays); evaluations count "
    "parallel runs."
)
ASSUMPTIONS = ["worker processes are created by fork, so the patched module attributes and the subclass are inherited"]
MIN_NONTRIVIAL = {"quick": 25, "thorough": 300}
SHARD_TIMEOUT = {"quick": 1500, "thorough": 7200}

PAD = {"x86": ["vaddpd %%xmm%d, %%xmm%d, %%xmm%d" % (i % 14 + 1, i % 14 + 1, 15) for i in range(20)],
       "aarch64": ["fadd d%d, d%d, d30" % (i % 28 + 1, i % 28 + 1) for i in range(20)]}


@st.composite
def sched_params(draw, klen):
    ncpu = draw(st.sampled_from([1, 2, 3, 5, 16, klen + 3]))
    ch = sched.chunks(klen, ncpu)
    mode = draw(st.sampled_from(["none", "reversed", "reversed", "random"]))
    delays = []
    for i, _ in enumerate(ch):
        if mode == "none":
            delays.append(0.0)
        elif mode == "reversed":
            delays.append(round(0.04 * (len(ch) - 1 - i), 3))
        else:
            delays.append(draw(st.sampled_from([0.0, 0.03, 0.06, 0.1])))
    return {"ncpu": ncpu, "delays": delays, "mode": mode}


@st.composite
def syn_cases(draw, isa):
    case = draw(deps.dep_cases(isa=isa, max_len=10, min_len=3, big_lines=False, lcd_safe=True))
    n = len(case["kernel"])
    case["runs"] = [draw(sched_params(n)) for _ in range(draw(st.integers(2, 3)))]
    case["kind"] = "syn"
    return case


def compare(ref, got, what):
    (rrep, rorder), (grep, gorder) = ref, got
    if set(rrep) != set(grep):
        raise Violation("parallel-set:" + what, "multi-process search returns a different set of loop-carried "
                        "dependencies than the single-process search", sorted(grep), sorted(rrep))
    for k in rrep:
        if rrep[k] != grep[k]:
            raise Violation("parallel-entry:" + what, "loop-carried dependency %s differs (latency / members / root)" % k,
                            core.jsonable(grep[k]), core.jsonable(rrep[k]))
    if rorder != gorder:
        raise Violation("parallel-order:" + what, "order of the reported loop-carried dependencies depends on the "
                        "execution", gorder, rorder)


def run_syn(case):
    from checks import c03

    fl = case.get("first_line", 0)
    with sched.Patched(threshold=10 ** 9):
        _, dg, _, _ = c03.runner().build(case)
        ref = sched.lcd_repr(dg, fl)
    n = len(case["kernel"])
    member_lines = {ln for v in ref[0].values() for ln, _ in v[1]}
    sub = []
    for r in case["runs"]:
        ch = sched.chunks(n, r["ncpu"])
        delays = {str(fl + 1 + a): d for (a, b), d in zip(ch, r["delays"])}
        cls = sched.make_class(delays=delays)
        with sched.Patched(ncpu=r["ncpu"], threshold=1):
            _, dg2, _, _ = c03.runner().build(case, dg_class=cls)
            got = sched.lcd_repr(dg2, fl)
        if dg2.timed_out:
            raise Violation("timed-out-without-timeout", "timed_out set with timeout -1", True, False)
        compare(ref, got, "syn:ncpu=%s" % ("klen+3" if r["ncpu"] == n + 3 else r["ncpu"]))
        with_members = [i for i, (a, b) in enumerate(ch) if any(a < ln <= b for ln in member_lines)]
        finish = sorted(range(len(ch)), key=lambda i: (r["delays"][i], i))
        nt = len(with_members) >= 2 and finish != list(range(len(ch)))
        sub.append(([case["forms"], case["kernel"], r], nt))
    return {"nontrivial": False, "sub": sub, "classes": ["syn", case["isa"]] + ["ncpu:%d" % min(r["ncpu"], 17)
                                                                                  for r in case["runs"]],
            "key": [case["forms"], case["kernel"]],
            "sample": {"kernel": deps.kernel_text(case).strip().split("\n"), "runs": case["runs"],
                       "lcds": sorted(ref[0])}}


_M = {}


def build_real(arch, lines, cls=None, timeout=-1):
    from osaca.parser import ParserAArch64, ParserX86ATT
    from osaca.semantics import ArchSemantics, KernelDG, MachineModel

    if arch not in _M:
        _M.clear()
        mm = guard(MachineModel, arch=arch, what="MachineModel")
        _M[arch] = (mm, guard(ArchSemantics, mm, what="ArchSemantics"))
    mm, sem = _M[arch]
    parser = ParserX86ATT() if env.isa_of(arch) == "x86" else ParserAArch64()
    kernel = guard(parser.parse_file, "\n".join(lines) + "\n", what="parse_file")
    guard(sem.add_semantics, kernel, what="add_semantics")
    return guard(cls or KernelDG, kernel, parser, mm, sem, timeout=timeout, what="KernelDG")


def run_real(case):
    lines, arch = case["lines"], case["arch"]
    n = len(lines)
    with sched.Patched(threshold=10 ** 9):
        ref = sched.lcd_repr(build_real(arch, lines))
    member_lines = {ln for v in ref[0].values() for ln, _ in v[1]}
    sub = []
    for r in case["runs"]:
        ch = sched.chunks(n, r["ncpu"])
        delays = {str(1 + a): d for (a, b), d in zip(ch, r["delays"])}
        cls = sched.make_class(delays=delays)
        with sched.Patched(ncpu=r["ncpu"]):
            dg = build_real(arch, lines, cls)
            got = sched.lcd_repr(dg)
        compare(ref, got, "real:ncpu=%s" % ("klen+3" if r["ncpu"] == n + 3 else r["ncpu"]))
        with_members = [i for i, (a, b) in enumerate(ch) if any(a < ln <= b for ln in member_lines)]
        finish = sorted(range(len(ch)), key=lambda i: (r["delays"][i], i))
        sub.append(([case["name"], arch, n, r], len(with_members) >= 2 and finish != list(range(len(ch)))))
    return {"nontrivial": False, "sub": sub, "classes": ["padded-real", "arch:" + arch, "len>=50" if n >= 50 else "len<50"],
            "key": [case["name"], arch, lines],
            "sample": {"kernel": case["name"], "arch": arch, "lines": n, "runs": case["runs"], "lcds": sorted(ref[0])}}


def run_cli_repeat(case):
    outs = []
    for hs in case["hashseeds"]:
        rc, out, err = cli.run_subprocess(["--arch", case["arch"], "--lcd-timeout", "-1"], code="\n".join(case["lines"]) + "\n",
                                          hashseed=hs)
        if rc != 0:
            raise Violation("cli-fails", "CLI run fails on padded kernel", err[-500:], None)
        outs.append(report.normalise(out))
    if len(set(outs)) != 1:
        a, b = [o for o in outs if o != outs[0]][0].split("\n"), outs[0].split("\n")
        raise Violation("repeat-differs", "repeated runs of the same command give different reports",
                        [(x, y) for x, y in zip(a, b) if x != y][:3], None)
    return {"nontrivial": False, "sub": [([case["name"], case["arch"], hs], True) for hs in case["hashseeds"]],
            "classes": ["cli-repeat"], "key": [case["name"], case["arch"], case["hashseeds"]],
            "sample": {"cli_repeat": case["name"], "arch": case["arch"], "hashseeds": case["hashseeds"]}}


def check_case(case):
    if case.get("kind") == "real":
        return run_real(case)
    if case.get("kind") == "cli":
        return run_cli_repeat(case)
    return run_syn(case)


@st.composite
def real_cases(draw, kernels, archs):
    name, isa, lines = draw(st.sampled_from(kernels))
    arch = draw(st.sampled_from([a for a in archs if env.isa_of(a) == isa]))
    target = draw(st.sampled_from([45, 49, 50, 51, 64, 100, 120]))
    body = [l for l in lines]
    i = 0
    while len(body) < target:
        body.insert(draw(st.integers(0, len(body))), PAD[isa][i % 20])
        i += 1
    n = len(body)
    return {"kind": "real", "name": name, "arch": arch, "lines": body,
            "runs": [draw(sched_params(n)) for _ in range(2)]}


def plan(tier, seed):
    n_syn = {"quick": 14, "thorough": 250}[tier]
    n_real = {"quick": 3, "thorough": 40}[tier]
    shards = []
    for i in range(10):
        shards.append({"kind": "syn", "isa": "x86" if i % 2 == 0 else "aarch64", "seed": seed * 1000 + 1600 + i,
                       "n": n_syn})
    for i in range(4):
        shards.append({"kind": "real", "seed": seed * 1000 + 1650 + i, "n": n_real,
                       "archs": [["zen1", "tx2"], ["spr", "n1"], ["zen3", "a72"], ["zen4", "a64fx"]][i]})
    shards.append({"kind": "cli", "seed": seed, "n": 1 if tier == "quick" else 6})
    return shards


def run_shard(spec):
    stats = Stats()
    if spec["kind"] == "cli":
        failures = {}
        ks = [k for k in corpus.kernels() if 20 <= len(k[2]) < 45]
        for j in range(spec["n"]):
            name, isa, lines = ks[(spec["seed"] * 7 + j * 13) % len(ks)]
            body = list(lines)
            i = 0
            while len(body) < 56:
                body.insert((i * 5) % len(body), PAD[isa][i % 20])
                i += 1
            case = {"kind": "cli", "name": name, "arch": "zen2" if isa == "x86" else "tx2", "lines": body,
                    "hashseeds": [0, 1, 12345]}
            try:
                stats.record(case, run_cli_repeat(case))
            except Violation as v:
                stats.evaluations += 1
                failures[v.bucket] = failure_record(ID, case, v)
        return {"stats": stats.to_dict(), "failures": list(failures.values())}
    if spec["kind"] == "real":
        ks = [k for k in corpus.kernels() if len(k[2]) < 45]
        strat = real_cases(ks, spec["archs"])
    else:
        strat = syn_cases(spec["isa"])
    failures = hyp_search(ID, strat, check_case, stats, seed=spec["seed"], max_examples=spec["n"], shrink=False)
    return {"stats": stats.to_dict(), "failures": failures}


def replay(case):
    return check_case(case)


LEVEL_TEXT = ("Randomised exploration of schedules the harness owns: worker count, partition and completion order of "
              "the multi-process search are generated, the result is compared with the single-process search; repeated "
              "CLI runs under different hash seeds are compared byte for byte.")
LEVEL_NOTE = ("Trusted: fork inheritance of the patched attributes; completion order is steered by start delays "
              "(tens of milliseconds), not enforced by a scheduler.")
TECHNIQUE = "property-based testing over generated schedules (worker counts, injected completion orders), differential against the sequential search"
