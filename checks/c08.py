"""C08 - memory-operand forms compose register-form data with load/store data."""
from hypothesis import strategies as st

from lib import core, ports as portslib, synth
from lib.core import Stats, Violation, guard, hyp_search

ID = "C08"
LEVEL = "exploration"
WARM = []
RULE = (
    "Hypothesis-generated synthetic models (both ISAs) that contain only register-form entries (1-3 micro-ops, own "
    "throughput/latency), load/store throughput tables with a distinct micro-op list per addressing shape (untyped "
    "regime) or per shape and register type with complete typing (typed regime), defaults, per-type load latencies, "
    "optional load/store multipliers; ISA roles making the memory operand a load, a store or read-modify-write in "
    "any operand position; kernels of 1-8 lines mixing composed, directly known and unknown instructions. Oracle "
    "R-compose: micro-ops = register form ++ load row ++ store row, pressure = avg(reg) + m_ld*avg(load) + "
    "m_st*avg(store), latency = L_reg + load latency of the register type, latency without load = L_reg, throughput "
    "= max(reg throughput, busiest data-port pressure), not flagged unknown; neither form -> flagged, zero pressure "
    "and latency; every line is checked against its own expectation in the order of the kernel (so a leak from one "
    "instruction into another shows). Non-trivial: a composed instruction whose load/store row is not the default "
    "row, or a kernel with >=2 composed instructions of different addressing shapes. Distinct = distinct (model, kernel). "
    "Second part (checks/c08_real.py), shipped x86 models: every register-only entry of the model written with one "
    "operand (first or last) replaced by one of 11 memory addressing shapes; the register form is found by R-match "
    "(C07's reference matcher) in file order with the AT&T suffix fall-back, the load/store rows, defaults, "
    "multipliers and load latencies are read from the head of the model's YAML file by the check itself, and the same "
    "five equalities are asserted; instructions with an entry of their own, with a register form lacking "
    "throughput/latency, or whose register type has no row although other types have typed rows are counted and not "
    "asserted. Non-trivial there: at least one composed instruction asserted."
)
ASSUMPTIONS = [
    "shipped-model part: the instruction-form list of the model object is taken from OSACA's loader (its fidelity is "
    "C15's subject); table rows, defaults, multipliers and load latencies are parsed independently from the YAML head",
    "shipped-model part: a zero displacement against an 'offset: ~' row and identifier displacements are left "
    "unasserted; AArch64 shipped models are not used (no valid AArch64 instruction reaches composition on them)",
    "load tables are either untyped or completely typed (partially typed load tables: row choice not pinned by the "
    "property); store tables may also mix rows typed for some register types with untyped rows",
    "row patterns are mutually exclusive (concrete shapes, or - wildcard regime - rows wildcarding the whole address "
    "that differ only in register type and AArch64 write-back mode), so 'the row for its addressing mode' is unique",
    "AArch64 tables declare pre_indexed/post_indexed per row as the shipped model files do; a post-indexed row is "
    "written without offset (as the parser reports such an operand)",
]
MIN_NONTRIVIAL = {"quick": 400, "thorough": 4000}
PORTS = ["0", "1", "2", "2D", "3", "3D"]
X_TYPES = ["gpr", "xmm", "ymm"]
A_TYPES = ["x", "d", "q"]


@st.composite
def uops_s(draw, maxn=2):
    n = draw(st.integers(1, maxn))
    out = []
    for _ in range(n):
        ps = sorted(draw(st.sets(st.sampled_from(PORTS), min_size=1, max_size=3)), key=PORTS.index)
        out.append([draw(st.sampled_from([1, 1, 0.5, 2])), ps])
    return out


SHAPES = [(False, False, 1), (True, False, 1), (False, True, 1), (False, True, 8), (True, True, 1), (True, True, 8)]
# AArch64 additionally: pre-indexed [x, #imm]! (offset present) and post-indexed [x], #imm (no offset) as 4th field
A_SHAPES = [s_ + (None,) for s_ in SHAPES[:4]] + [(True, False, 1, "pre"), (False, False, 1, "post")]


@st.composite
def tables(draw, isa, types, typed):
    rows = []
    if typed == "mixed":
        # store tables only: rows typed for some register types first, then (sometimes) an untyped row of the same
        # shape - a register type without a row of its own takes the untyped row, or the default, never a row
        # typed for another type
        some = draw(st.lists(st.sampled_from(types), min_size=1, max_size=len(types) - 1, unique=True))
        shapes = [["*", "*", "*"] + ([None] if isa == "aarch64" else [])] if draw(st.booleans()) else \
            [list(sh) for sh in draw(st.lists(st.sampled_from(SHAPES if isa == "x86" else A_SHAPES[:4]), min_size=1,
                                              max_size=3, unique=True))]
        for sh in shapes:
            for t in some:
                rows.append({"shape": sh, "type": t, "uops": draw(uops_s())})
            if draw(st.booleans()):
                rows.append({"shape": sh, "type": None, "uops": draw(uops_s())})
        return rows
    if draw(st.integers(0, 3)) == 0:
        # wildcard regime (spr / m1 / v2 style): rows that wildcard the whole address and differ only in register
        # type and, on AArch64, in write-back mode
        wbs = [None] if isa == "x86" else draw(st.lists(st.sampled_from([None, "pre", "post"]), min_size=1, max_size=3,
                                                       unique=True))
        for wb in wbs:
            sh = ["*", "*", "*"] + ([wb] if isa == "aarch64" else [])
            if typed:
                for t in types:
                    rows.append({"shape": sh, "type": t, "uops": draw(uops_s())})
            else:
                rows.append({"shape": sh, "type": None, "uops": draw(uops_s())})
        return rows
    shapes = draw(st.lists(st.sampled_from(SHAPES if isa == "x86" else A_SHAPES), min_size=0, max_size=5, unique=True))
    for sh in shapes:
        if typed:
            for t in types:
                rows.append({"shape": list(sh), "type": t, "uops": draw(uops_s())})
        else:
            rows.append({"shape": list(sh), "type": None, "uops": draw(uops_s())})
    return rows


@st.composite
def cases(draw, isa):
    types = X_TYPES if isa == "x86" else A_TYPES
    nforms = draw(st.integers(1, 4))
    forms = []
    for i in range(nforms):
        nops = draw(st.integers(1, 3))
        kinds = [draw(st.sampled_from(types + ["imm"])) for _ in range(nops)]
        if all(k == "imm" for k in kinds):
            kinds[-1] = types[0]
        if isa == "aarch64" and kinds[0] == "imm":
            kinds[0] = types[0]
        roles = None
        if draw(st.integers(0, 3)) > 0:
            roles = [[True, False] if k == "imm" else list(draw(st.sampled_from(
                [[True, False], [False, True], [True, True]]))) for k in kinds]
        forms.append({"name": "cmp%d" % i, "kinds": kinds, "uops": draw(uops_s(3)),
                      "tp": draw(st.sampled_from([1.0, 0.5, 2.0, 0.25])),
                      "lat": draw(st.sampled_from([1.0, 3.0, 4.0, 0.0, 6.0])), "roles": roles})
    typed_l, typed_s = draw(st.booleans()), draw(st.sampled_from([False, True, "mixed"]))
    case = {
        "isa": isa, "forms": forms,
        "load_rows": draw(tables(isa, types, typed_l)), "store_rows": draw(tables(isa, types, typed_s)),
        "load_default": draw(uops_s()), "store_default": draw(uops_s()),
        "load_lat": {t: draw(st.sampled_from([4.0, 5.0, 0.0, 7.0])) for t in types},
        "ld_mult": {t: draw(st.sampled_from([1, 2, 0.5])) for t in types} if draw(st.integers(0, 3)) == 0 else None,
        "st_mult": {t: draw(st.sampled_from([1, 2])) for t in types} if draw(st.integers(0, 3)) == 0 else None,
    }
    kernel = []
    for _ in range(draw(st.integers(1, 8))):
        if draw(st.integers(0, 7)) == 0:
            kernel.append(["unk", [["r", types[0], draw(st.integers(0, 5))]]])
            continue
        fi = draw(st.integers(0, nforms - 1))
        f = forms[fi]
        regpos = [p for p, k in enumerate(f["kinds"]) if k != "imm"]
        if isa == "aarch64":
            regpos = [p for p in regpos if p == len(f["kinds"]) - 1]
        mempos = draw(st.sampled_from(regpos)) if regpos and draw(st.integers(0, 3)) > 0 else None
        ops = []
        for p, k in enumerate(f["kinds"]):
            if p == mempos:
                rmw = bool(f["roles"]) and f["roles"][p] == [True, True]
                # AArch64: a source+destination memory operand with write-back is OSACA's notation for "load with
                # base update", not a read-modify-write - that combination is left out
                sh = draw(st.sampled_from(SHAPES if isa == "x86" else (A_SHAPES[:4] if rmw else A_SHAPES)))
                sc = 1 if sh[2] == 1 else draw(st.sampled_from([2, 4, 8]))
                ops.append(["m", sh[0], sh[1], sc] + ([sh[3]] if isa == "aarch64" else []))
            elif k == "imm":
                ops.append(["i", draw(st.sampled_from([1, 8, 255]))])
            else:
                ops.append(["r", k, draw(st.integers(0, 5))])
        kernel.append([fi, ops])
    case["kernel"] = kernel
    return case


# ------------------------------------------------------------------ model files
def x86_regname(k, n):
    if k == "gpr":
        return ["rax", "rbx", "rcx", "r8", "r9d", "esi"][n]
    return "%s%d" % (k, n)


def render(isa, name, ops):
    out = []
    for o in ops:
        if o[0] == "i":
            out.append(("$%d" if isa == "x86" else "#%d") % o[1])
        elif o[0] == "r":
            out.append("%" + x86_regname(o[1], o[2]) if isa == "x86" else "%s%d" % (o[1], o[2]))
        else:
            ho, hi, sc = o[1], o[2], o[3]
            if isa == "x86":
                s = "16" if ho else ""
                s += "(%rdx" + (",%%rdi,%d" % sc if hi else "") + ")"
                s = s.replace("%%", "%")
                out.append(s)
            elif len(o) > 4 and o[4] == "pre":
                out.append("[x10, #16]!")
                continue
            elif len(o) > 4 and o[4] == "post":
                out.append("[x10], #16")
                continue
            else:
                s = "[x10"
                if ho:
                    s += ", #16"
                if hi:
                    s += ", x11" + (", lsl #%d" % {2: 1, 4: 2, 8: 3}[sc] if sc != 1 else "")
                out.append(s + "]")
    return (name + " " + ", ".join(out)).strip()


def model_dicts(case):
    isa = case["isa"]
    types = X_TYPES if isa == "x86" else A_TYPES

    def opd(k, role=None):
        if k == "imm":
            d = {"class": "immediate", "imd": "int"}
        elif isa == "x86":
            d = {"class": "register", "name": k}
        else:
            d = {"class": "register", "prefix": k}
        if role is not None:
            d["source"], d["destination"] = bool(role[0]), bool(role[1])
        return d

    aforms, iforms = [], []
    for f in case["forms"]:
        aforms.append({"name": f["name"], "operands": [opd(k) for k in f["kinds"]], "throughput": f["tp"],
                       "latency": f["lat"], "port_pressure": f["uops"]})
        if f["roles"]:
            iforms.append({"name": f["name"], "operands": [opd(k, r) for k, r in zip(f["kinds"], f["roles"])]})

    def rows(rs, key):
        out = []
        for r in rs:
            ho, hi, sc = r["shape"][:3]
            if ho == "*":
                d = {"base": "*", "offset": "*", "index": "*", "scale": "*", "port_pressure": r["uops"]}
            else:
                d = {"base": "gpr" if isa == "x86" else "x", "offset": "imd" if ho else None,
                     "index": ("gpr" if isa == "x86" else "x") if hi else None, "scale": sc,
                     "port_pressure": r["uops"]}
            if isa == "aarch64":
                wb = r["shape"][3] if len(r["shape"]) > 3 else None
                d["pre_indexed"], d["post_indexed"] = wb == "pre", wb == "post"
            if r["type"]:
                d[key] = r["type"]
            out.append(d)
        return out

    keys = ["gpr", "mm", "xmm", "ymm", "zmm"] if isa == "x86" else list("wxbhsdqvz")
    ll = {k: case["load_lat"].get(k, 4.0) for k in keys}
    arch = synth.arch_model(
        isa if isa == "x86" else "AArch64", PORTS, aforms, load_latency=ll,
        load_throughput=rows(case["load_rows"], "dst"), store_throughput=rows(case["store_rows"], "src"),
        load_throughput_default=case["load_default"], store_throughput_default=case["store_default"],
        load_throughput_multiplier={k: (case["ld_mult"] or {}).get(k, 1) for k in keys} if case["ld_mult"] else None,
        store_throughput_multiplier={k: (case["st_mult"] or {}).get(k, 1) for k in keys} if case["st_mult"] else None,
    )
    return arch, synth.isa_model(isa if isa == "x86" else "AArch64", iforms)


# ------------------------------------------------------------------ reference
def avg(uops):
    p = [0.0] * len(PORTS)
    for c, ps in uops:
        for q in ps:
            p[PORTS.index(q)] += c / len(ps)
    return p


def pick_row(rows, default, op, rtype):
    ho, hi, sc = op[1], op[2], op[3]
    wb = op[4] if len(op) > 4 else None
    m = [r for r in rows if (r["shape"][0] == "*" or (r["shape"][0] == ho and r["shape"][1] == hi and
                                                         ((r["shape"][2] == 1) == (sc == 1))))
         and (r["shape"][3] if len(r["shape"]) > 3 else None) == wb]
    typed = [r for r in m if r["type"] == rtype]
    if typed:
        return typed[0]["uops"], True
    untyped = [r for r in m if r["type"] is None]
    if untyped:
        return untyped[0]["uops"], True
    return default, False


def expected(case, entry):
    isa = case["isa"]
    fi, ops = entry
    if fi == "unk":
        return {"unknown": True}
    f = case["forms"][fi]
    mem = [(p, o) for p, o in enumerate(ops) if o[0] == "m"]
    if not mem:
        return {"unknown": False, "uops": f["uops"], "pressure": avg(f["uops"]), "lat": f["lat"],
                "lat_wo": f["lat"], "tp": f["tp"], "composed": False}
    p, o = mem[0]
    if f["roles"]:
        s, d = f["roles"][p]
    else:
        n = len(ops)
        if n == 1:
            s, d = True, False
        elif isa == "x86":
            s, d = (False, True) if p == n - 1 else (True, False)
        else:
            s, d = (False, True) if p == 0 else (True, False)
    rtype = f["kinds"][p]
    data = [0.0] * len(PORTS)
    duops = []
    nondefault = False
    if s:
        lu, nd = pick_row(case["load_rows"], case["load_default"], o, rtype)
        nondefault |= nd
        m = (case["ld_mult"] or {}).get(rtype, 1) if case["ld_mult"] else 1
        data = [a + m * b for a, b in zip(data, avg(lu))]
        duops += lu
    if d:
        su, nd = pick_row(case["store_rows"], case["store_default"], o, rtype)
        nondefault |= nd
        m = (case["st_mult"] or {}).get(rtype, 1) if case["st_mult"] else 1
        data = [a + m * b for a, b in zip(data, avg(su))]
        duops += su
    return {"unknown": False, "uops": f["uops"] + duops,
            "pressure": [a + b for a, b in zip(avg(f["uops"]), data)],
            "lat": f["lat"] + (case["load_lat"][rtype] if s else 0.0), "lat_wo": f["lat"],
            "tp": max(max(data), f["tp"]), "composed": True, "load": s, "store": d, "nondefault": nondefault,
            "shape": o[1:], "wb": o[4] if len(o) > 4 else None}


# ------------------------------------------------------------------ evaluation
class Runner:
    def __init__(self):
        from osaca.parser import ParserAArch64, ParserX86ATT

        self.wd = synth.Workdir()
        self.parsers = {"x86": ParserX86ATT(), "aarch64": ParserAArch64()}


_R = {}


def check_case(case):
    from checks.c01 import _rm

    if case.get("kind") == "real":
        from checks import c08_real
        return c08_real.check_case(case)

    if "r" not in _R:
        _R["r"] = Runner()
    r = _R["r"]
    isa = case["isa"]
    arch, isad = model_dicts(case)
    pa, pi = r.wd.write(arch), r.wd.write(isad, stem="isa")
    try:
        mm, sem = guard(synth.load_arch, pa, pi, what="model load")
        text = "\n".join(render(isa, "unk7" if fi == "unk" else case["forms"][fi]["name"], ops)
                         for fi, ops in case["kernel"]) + "\n"
        kernel = guard(r.parsers[isa].parse_file, text, what="parse_file")
        guard(sem.add_semantics, kernel, what="add_semantics")
    finally:
        _rm(pa)
        _rm(pi)
    shapes = set()
    nt = False
    cl = [isa]
    for idx, (entry, iform) in enumerate(zip(case["kernel"], kernel)):
        e = expected(case, entry)
        flags = set(iform.flags)
        line = iform.line.strip()
        if e["unknown"]:
            if not {"tp_unknown", "lt_unknown"} <= flags:
                raise Violation("unknown-not-flagged:" + isa, "instruction with neither form is not flagged unknown: "
                                + line, sorted(flags), ["tp_unknown", "lt_unknown"])
            if any(abs(x) > 0 for x in iform.port_pressure) or iform.latency != 0:
                raise Violation("unknown-nonzero:" + isa, "unknown instruction carries pressure/latency: " + line,
                                [iform.port_pressure, iform.latency], 0)
            cl.append("unknown-instruction")
            continue
        kind = ("composed:" + ("ld" if e.get("load") else "") + ("st" if e.get("store") else "")) \
            if e["composed"] else "direct"
        tag = "%s:%s" % (isa, kind)
        if flags & {"tp_unknown", "lt_unknown"}:
            raise Violation("flagged-unknown:" + tag, "instruction whose register form is known is flagged unknown: "
                            + line, sorted(flags), None)
        got_uops = portslib.norm_uops(iform.port_uops)
        exp_uops = portslib.norm_uops(e["uops"])
        if sorted(got_uops, key=repr) != sorted(exp_uops, key=repr):
            prev = "after-rmw" if any(expected(case, en).get("load") and expected(case, en).get("store")
                                      for en in case["kernel"][:idx]) else "first"
            raise Violation("uops:%s:%s" % (tag, prev), "micro-ops of line %d (%s) are not register form + load/store "
                            "rows" % (idx, line), core.jsonable(got_uops), core.jsonable(exp_uops))
        if any(abs(a - b) > 1e-9 for a, b in zip(iform.port_pressure, e["pressure"])):
            raise Violation("pressure:" + tag, "port pressure of line %d (%s) is not the sum of register-form and "
                            "load/store pressure" % (idx, line), list(iform.port_pressure), e["pressure"])
        if abs(float(iform.latency) - e["lat"]) > 1e-9:
            raise Violation("latency:" + tag, "latency of line %d (%s)" % (idx, line), float(iform.latency), e["lat"])
        if abs(float(iform.latency_wo_load) - e["lat_wo"]) > 1e-9:
            raise Violation("latency-wo-load:" + tag, "latency without load of line %d (%s)" % (idx, line),
                            float(iform.latency_wo_load), e["lat_wo"])
        if abs(float(iform.throughput) - e["tp"]) > 1e-9:
            raise Violation("throughput:" + tag, "throughput of line %d (%s)" % (idx, line),
                            float(iform.throughput), e["tp"])
        if e["composed"]:
            if e["store"] and "performs_store" not in flags:
                raise Violation("store-flag:" + tag, "composed store lost its store flag: " + line, sorted(flags), None)
            shapes.add(tuple(e["shape"]))
            cl.append(kind)
            if e["nondefault"]:
                nt = True
                cl.append("table-row-used")
            else:
                cl.append("default-row-used")
    if len(shapes) >= 2:
        nt = True
        cl.append(">=2-addressing-shapes")
    if case["ld_mult"] or case["st_mult"]:
        cl.append("multiplier")
    if any(r_["type"] for r_ in case["load_rows"] + case["store_rows"]):
        cl.append("typed-table")
    return {"nontrivial": nt, "classes": sorted(set(cl)), "key": case,
            "sample": {"isa": isa, "kernel": text.strip().split("\n"), "forms": case["forms"],
                       "load_rows": case["load_rows"], "store_rows": case["store_rows"]}}


def plan(tier, seed):
    n = {"quick": 300, "thorough": 8000}[tier]
    from checks import c08_real

    return [{"isa": "x86" if i % 2 == 0 else "aarch64", "seed": seed * 1000 + 800 + i, "n": n}
            for i in range(16)] + c08_real.plan(tier, seed)


def run_shard(spec):
    if spec.get("kind") == "real":
        from checks import c08_real
        return c08_real.run_shard(spec)
    stats = Stats()
    failures = hyp_search(ID, cases(spec["isa"]), check_case, stats, seed=spec["seed"], max_examples=spec["n"])
    return {"stats": stats.to_dict(), "failures": failures}


def replay(case):
    return check_case(case)


LEVEL_TEXT = ("Randomised differential testing of the composition path against a model-independent recomputation "
              "(R-compose) on generated models of both ISAs, line by line in kernel order, and of the memory forms of "
              "every register-only entry of the shipped x86 models against tables read from the YAML files.")
LEVEL_NOTE = ("Trusted: R-compose in checks/c08.py; table regimes restricted to untyped or completely typed rows with "
              "mutually exclusive addressing-shape patterns.")
TECHNIQUE = "property-based differential testing against a reference composition of register-form and load/store data"
