"""C08(b): composition on shipped models.

Vocabulary: the register-only entries of the shipped x86 models (these are the real instructions whose memory forms
OSACA composes), written with one operand replaced by a memory reference of a generated addressing shape.  AArch64
models are not used here: only load/store instructions take memory operands there and the shipped models list those
directly, so no valid AArch64 instruction reaches the composition path on a shipped model (the generated models of
checks/c08.py cover that path for AArch64).

Reference, independent of hw_model's table look-up and arch_semantics' composition:
  * the load/store tables, defaults, multipliers and load latencies are read from the head of the model's YAML file
    by this module (ruamel, not the OSACA loader);
  * the register form is the first entry in file order of the mnemonic (AT&T suffix dropped as fall-back) whose
    operands agree with the instruction's by R-match (checks/c07.py) with the memory operand standing for "any
    register"; no such entry and no entry of its own => the instruction must be reported unknown;
  * row choice: rows whose addressing pattern admits the operand, the one typed for the register type if there is one,
    else the first row when none of them is typed, else the default when no row admits the operand; the mixed case
    (typed rows only, none for this type) is left unasserted and counted.
"""
import os

from hypothesis import strategies as st

from lib import core, entries, env, ports as portslib
from lib.core import Stats, Violation, guard, hyp_search

ID = "C08"
_M = {}
_H = {}
X_CLASSES = ("gpr", "mm", "xmm", "ymm", "zmm")


def head(arch):
    """Raw header of the model file (everything before instruction_forms) parsed by ruamel."""
    if arch not in _H:
        import ruamel.yaml

        p = os.path.join(env.REPO, "osaca", "data", arch + ".yml")
        lines = []
        with open(p) as fh:
            for ln in fh:
                if ln.startswith("instruction_forms:"):
                    break
                lines.append(ln)
        _H[arch] = ruamel.yaml.YAML(typ="safe").load("".join(lines))
    return _H[arch]


def model(arch):
    from osaca.parser import ParserAArch64, ParserX86ATT
    from osaca.parser.register import RegisterOperand
    from osaca.semantics import ArchSemantics, MachineModel

    if arch not in _M:
        if len(_M) > 1:
            _M.clear()
        mm = guard(MachineModel, arch=arch, what="MachineModel")
        sem = guard(ArchSemantics, mm, what="ArchSemantics")
        regforms = []
        for name, fs in mm._data["instruction_forms_dict"].items():
            for i, f in enumerate(fs):
                if len(f.operands) >= 1 and all(isinstance(o, RegisterOperand) for o in f.operands):
                    regforms.append((name, i))
        # the scalar integer instructions (suffixable in AT&T syntax) are a small part of a model: drawn separately
        regforms = (regforms, [r for r in regforms if r[0].lower() in SUFFIXABLE] or regforms)
        _M[arch] = (mm, sem, regforms, ParserX86ATT() if env.isa_of(arch) == "x86" else ParserAArch64())
    return _M[arch]


SUFFIXABLE = {"add", "sub", "adc", "sbb", "and", "or", "xor", "cmp", "test", "imul", "shl", "shr", "sar", "not",
              "neg", "inc", "dec", "popcnt", "lzcnt", "tzcnt", "bsf", "bsr", "mov", "xchg", "bt", "xadd", "cmpxchg"}
X_MEM = ["(%rdx)", "16(%rdx)", "-8(%rdx)", "(%rdx,%rdi,1)", "(%rdx,%rdi,8)", "24(%rdx,%rdi,1)", "24(%rdx,%rdi,4)",
         "(,%rdi,8)", "0x40(,%rdi,2)", "(%rdx,%rdi)", "4096"]
A_MEM = ["[x10]", "[x10, #16]", "[x10, x11]", "[x10, x11, lsl #3]", "[x10, #16]!", "[x10], #16"]


@st.composite
def cases(draw, archs):
    arch = draw(st.sampled_from(archs))
    n = draw(st.integers(1, 5))
    return {"kind": "real", "arch": arch,
            "picks": [[draw(st.integers(0, 10 ** 6)), draw(st.integers(0, 2)), draw(st.sampled_from(["first", "last"])),
                       draw(st.integers(0, 10))] for _ in range(n)]}


def avg(uops, plist):
    p = [0.0] * len(plist)
    for c, ps in portslib.norm_uops(uops):
        for q in ps:
            p[plist.index(q)] += c / len(ps)
    return p


def row_admits(isa, row, op):
    def fld(want, have_kind):
        # want: '*', None, 'gpr'/'x'/'imd'; have_kind: None or 'reg'/'imd'
        if want == "*":
            return True
        if want is None:
            return have_kind is None
        return have_kind is not None

    from osaca.parser.immediate import ImmediateOperand

    if op.offset is not None and not isinstance(op.offset, ImmediateOperand):
        return None
    off = None if op.offset is None else "imd"
    if not (fld(row.get("base"), None if op.base is None else "reg") and fld(row.get("offset"), off)
            and fld(row.get("index"), None if op.index is None else "reg")):
        # a zero displacement is also admitted by offset: ~ rows - left unasserted
        if off == "imd" and row.get("offset") is None and str(op.offset.value) in ("0", "0x0"):
            return None
        return False
    sc = row.get("scale")
    if sc != "*" and (sc == 1) != (op.scale == 1):
        return False
    if isa == "aarch64":
        if bool(row.get("pre_indexed", False)) != bool(op.pre_indexed) or \
                bool(row.get("post_indexed", False)) != bool(op.post_indexed):
            return False
    return True


def pick(isa, rows, default, op, rtype, key):
    adm = []
    for r in rows or []:
        a = row_admits(isa, r, op)
        if a is None:
            return None, "unclassified-operand"
        if a:
            adm.append(r)
    if not adm:
        return default, "default"
    typed = [r for r in adm if r.get(key) == rtype]
    if typed:
        return typed[0]["port_pressure"], "typed-row"
    if all(r.get(key) is None for r in adm):
        return adm[0]["port_pressure"], "row"
    untyped = [r for r in adm if r.get(key) is None]
    if key == "src" and untyped:
        return untyped[0]["port_pressure"], "row"
    return None, "typed-rows-without-this-type"


def check_case(case):
    from checks.c07 import rmatch_objects
    from osaca.parser.memory import MemoryOperand
    from osaca.parser.register import RegisterOperand

    arch = case["arch"]
    isa = env.isa_of(arch)
    mm, sem, regforms, parser = model(arch)
    hd = head(arch)
    plist = [str(p) for p in hd["ports"]]
    lines, meta = [], []
    suffixed = False
    for k, v, where, shape in case["picks"]:
        pool = regforms[1] if k % 3 == 0 else regforms[0]
        name, i = pool[(k // 3) % len(pool)]
        f = mm._data["instruction_forms_dict"][name][i]
        try:
            text = entries.entry_text(isa, name, f.operands, v)
        except (entries.Unsupported, TypeError, ValueError):
            continue
        mn, _, rest = text.partition(" ")
        ops = [o.strip() for o in rest.split(",")] if rest.strip() else []
        if not ops:
            continue
        pos = 0 if where == "first" else len(ops) - 1
        if isa == "aarch64":
            pos = len(ops) - 1
            if len(ops) < 2:
                continue
        mems = X_MEM if isa == "x86" else A_MEM
        ops[pos] = mems[shape % len(mems)]
        if isa == "x86" and mn in SUFFIXABLE and v != 1:
            # AT&T size suffix as compilers write it for memory forms (subq, imull, testq, ...)
            regs = [o.lstrip("%") for j, o in enumerate(ops) if j != pos and o.startswith("%")]
            mn += "l" if any(r.startswith("e") or r.endswith("d") for r in regs) else "q"
            suffixed = True
        lines.append(mn + " " + ", ".join(ops))
        meta.append(pos)
    if not lines:
        return {"nontrivial": False, "classes": ["real:empty"]}
    try:
        kernel = parser.parse_file("\n".join(lines) + "\n")
    except Exception:
        return {"nontrivial": False, "classes": ["real:text-not-parsable"]}
    guard(sem.add_semantics, kernel, what="add_semantics(%s)" % arch)
    cl = ["real", "real:" + arch] + (["real:size-suffix"] if suffixed else [])
    nt = False
    excluded = {}
    for iform, pos in zip(kernel, meta):
        line = iform.line.strip()
        if iform.mnemonic is None or pos >= len(iform.operands) or not isinstance(iform.operands[pos], MemoryOperand):
            cl.append("real:operand-not-memory")
            continue
        memop = iform.operands[pos]
        names = [iform.mnemonic.upper()]
        if isa == "x86" and iform.mnemonic[-1] in "bswlqt" and len(iform.mnemonic) > 1:
            names.append(iform.mnemonic[:-1].upper())
        if isa == "aarch64" and "." in iform.mnemonic:
            names.append(iform.mnemonic[:iform.mnemonic.index(".")].upper())
        fd = mm._data["instruction_forms_dict"]
        direct = None
        unclass = False
        for nm in names:
            for e in fd.get(nm, []):
                r = rmatch_objects(isa, e.operands, iform.operands)
                if r is None:
                    unclass = True
                elif r and direct is None:
                    direct = e
            if direct is not None or unclass:
                break
        if unclass:
            cl.append("real:entry-outside-descriptor-language")
            continue
        if direct is not None:
            cl.append("real:has-own-entry")
            continue
        regentry = None
        for nm in names:
            for e in fd.get(nm, []):
                if len(e.operands) != len(iform.operands) or not isinstance(e.operands[pos], RegisterOperand):
                    continue
                others_e = [o for j, o in enumerate(e.operands) if j != pos]
                others_i = [o for j, o in enumerate(iform.operands) if j != pos]
                r = rmatch_objects(isa, others_e, others_i)
                if r is None:
                    unclass = True
                    break
                if r:
                    regentry = e
                    break
            if regentry is not None or unclass:
                break
        if unclass:
            cl.append("real:entry-outside-descriptor-language")
            continue
        flags = set(iform.flags)
        tag = arch
        if regentry is None:
            if not {"tp_unknown", "lt_unknown"} <= flags:
                raise Violation("real-unknown-not-flagged:" + tag, "%r has neither an entry nor a register form on %s "
                                "but is not flagged unknown" % (line, arch), sorted(flags), None)
            if any(abs(x) > 0 for x in iform.port_pressure) or iform.latency != 0 or iform.throughput != 0:
                raise Violation("real-unknown-nonzero:" + tag, "unknown instruction %r carries pressure/latency" % line,
                                [list(iform.port_pressure), iform.latency, iform.throughput], 0)
            cl.append("real:unknown")
            continue
        if isa == "aarch64":
            cl.append("real:aarch64-composed")  # not asserted: outside the curated x86 vocabulary
            continue
        rtype = regentry.operands[pos].name
        if rtype not in X_CLASSES:
            cl.append("real:register-type-not-a-class")
            continue
        so = iform.semantic_operands
        is_ld = any(o is memop for o in so["source"] + so["src_dst"])
        is_st = any(o is memop for o in so["destination"] + so["src_dst"])
        if not (is_ld or is_st):
            cl.append("real:memory-operand-without-role")
            continue
        if any(isinstance(o, MemoryOperand) and o is not memop
               for o in so["source"] + so["destination"] + so["src_dst"]):
            # push/pop/call: a hidden stack access besides the written memory operand (two data accesses: the
            # property's "load and/or store micro-ops for its addressing mode" does not say which table row each gets)
            cl.append("real:second-hidden-memory-access")
            continue
        if regentry.port_pressure is None or isinstance(regentry.port_pressure, dict):
            cl.append("real:register-form-with-alternatives")
            continue
        reg_uops = portslib.norm_uops(regentry.port_pressure)
        data = [0.0] * len(plist)
        duops = []
        how = []
        skip = None
        if is_ld:
            lu, h = pick(isa, hd.get("load_throughput"), hd.get("load_throughput_default"), memop, rtype, "dst")
            if lu is None:
                skip = h
            else:
                m = (hd.get("load_throughput_multiplier") or {}).get(rtype, 1)
                data = [a + m * b for a, b in zip(data, avg(lu, plist))]
                duops += portslib.norm_uops(lu)
                how.append("ld-" + h)
        if is_st and skip is None:
            su, h = pick(isa, hd.get("store_throughput"), hd.get("store_throughput_default"), memop, rtype, "src")
            if su is None:
                skip = h
            else:
                m = (hd.get("store_throughput_multiplier") or {}).get(rtype, 1)
                data = [a + m * b for a, b in zip(data, avg(su, plist))]
                duops += portslib.norm_uops(su)
                how.append("st-" + h)
        if skip:
            excluded[skip] = excluded.get(skip, 0) + 1
            cl.append("real:" + skip)
            continue
        kind = ("ld" if is_ld else "") + ("st" if is_st else "")
        if regentry.throughput is None or regentry.latency is None:
            cl.append("real:register-form-without-tp-or-lt")
            continue
        if flags & {"tp_unknown", "lt_unknown"}:
            raise Violation("real-flagged-unknown:%s:%s" % (tag, kind), "%r: register form %s is in the model of %s "
                            "but the instruction is flagged unknown" % (line, regentry.mnemonic, arch),
                            sorted(flags), None)
        got = portslib.norm_uops(iform.port_uops)
        exp = reg_uops + duops
        if sorted(got, key=repr) != sorted(exp, key=repr):
            raise Violation("real-uops:%s:%s" % (tag, kind), "micro-ops of %r on %s are not register form + %s" % (
                line, arch, "/".join(how)), core.jsonable(got), core.jsonable(exp))
        ep = [a + b for a, b in zip(avg(regentry.port_pressure, plist), data)]
        if any(abs(a - b) > 1e-9 for a, b in zip(iform.port_pressure, ep)):
            raise Violation("real-pressure:%s:%s" % (tag, kind), "port pressure of %r on %s is not register form + %s"
                            % (line, arch, "/".join(how)), list(iform.port_pressure), ep)
        ll = hd.get("load_latency") or {}
        elat = float(regentry.latency) + (float(ll[rtype]) if is_ld else 0.0)
        if abs(float(iform.latency) - elat) > 1e-9:
            raise Violation("real-latency:%s:%s" % (tag, kind), "latency of %r on %s" % (line, arch),
                            float(iform.latency), elat)
        if abs(float(iform.latency_wo_load) - float(regentry.latency)) > 1e-9:
            raise Violation("real-latency-wo-load:%s:%s" % (tag, kind), "latency without load of %r on %s" % (
                line, arch), float(iform.latency_wo_load), float(regentry.latency))
        etp = max(max(data), float(regentry.throughput))
        if abs(float(iform.throughput) - etp) > 1e-9:
            raise Violation("real-throughput:%s:%s" % (tag, kind), "throughput of %r on %s" % (line, arch),
                            float(iform.throughput), etp)
        if is_st and "performs_store" not in flags:
            raise Violation("real-store-flag:" + tag, "composed store lost its store flag: " + line, sorted(flags), None)
        nt = True
        cl += ["real:composed:" + kind] + ["real:" + h for h in how]
    return {"nontrivial": nt, "classes": sorted(set(cl)), "excluded": excluded, "key": [arch, lines],
            "sample": {"arch": arch, "kernel": lines}}


def plan(tier, seed):
    n = {"quick": 120, "thorough": 4000}[tier]
    groups = [["hsw", "zen1"], ["icx", "zen3"], ["spr", "zen2"], ["snb", "zen4"]]
    if tier == "thorough":
        groups = [["snb"], ["ivb"], ["hsw"], ["icl"], ["icx"], ["spr"], ["zen1"], ["zen2"], ["zen3"], ["zen4"]]
    return [{"kind": "real", "archs": g, "seed": seed * 1000 + 850 + i, "n": n} for i, g in enumerate(groups)]


def run_shard(spec):
    stats = Stats()
    failures = hyp_search(ID, cases(spec["archs"]), check_case, stats, seed=spec["seed"], max_examples=spec["n"])
    return {"stats": stats.to_dict(), "failures": failures}
