"""C07 - instruction-form lookup is sound and complete for operand kinds."""
import os

from hypothesis import strategies as st

from lib import core, env, synth
from lib.core import Stats, Violation, failure_record, guard, hyp_search

ID = "C07"
LEVEL = "exploration"
WARM = None
RULE = (
    "(a) Hypothesis-generated synthetic model files (both ISAs) with 2-8 entries per mnemonic over all operand "
    "kinds (register classes / concrete names / prefixes / vector shapes / wildcards, immediates by type, "
    "identifier, condition codes incl. wildcard, memory patterns with every wildcard combination, pre/post-index), "
    "duplicate and shadowing entries with distinguishable latencies, mixed-case names, x instructions whose operands "
    "are exactly of one entry's kinds or a near miss in a clearly different kind or operand count, mnemonics with "
    "AT&T size suffix / AArch64 '.cond' suffix; oracle R-match = independent matcher over abstract kind descriptors, "
    "expected = first matching entry in file order (after the documented suffix fall-back) or unknown. "
    "(b) exhaustive sweep: every entry of every shipped model and both ISA databases x the instruction synthesised "
    "from its own pattern (3 variants) must resolve to an entry of that mnemonic. Non-trivial: the mnemonic has >=2 "
    "entries and the expected answer is neither the first entry nor unknown, or a one-operand near miss. Distinct = "
    "distinct (entries, instruction) / (model, entry, variant)."
)
ASSUMPTIONS = [
    "mask/segment/rip registers are not used against class gpr; vector registers without arrangement are not used "
    "against shaped patterns (the property does not classify them)",
    "alias-list entries (name: [a, b]) are appended after all single-name entries by the loader (known finding "
    "F-C07-2): synthetic models do not use alias lists, the sweep accepts any entry of the mnemonic",
]
MIN_NONTRIVIAL = {"quick": 1500, "thorough": 5000}

# ------------------------------------------------------------------ abstract operand descriptors
# instruction operand descriptors (x86):
#   ["reg", cls, name]   cls in gpr xmm ymm zmm mm ; ["imm"] ; ["id"] ; ["mem", has_base, has_disp, has_index, scale]
# (aarch64):
#   ["reg", prefix, shape|None] ; ["imm", "int"|"double"] ; ["id"] ; ["cc", CODE] ;
#   ["mem", has_disp, index_prefix|None, scale, pre, post]
X86_REGS = {"gpr": ["rax", "ebx", "cx", "dl", "r8", "r9d", "r10w", "r11b", "rsi", "rbp"],
            "xmm": ["xmm0", "xmm7", "xmm15", "xmm31"], "ymm": ["ymm1", "ymm12"], "zmm": ["zmm2", "zmm28"],
            "mm": ["mm0", "mm3"]}


@st.composite
def x86_pattern(draw):
    k = draw(st.integers(0, 13))
    if k <= 5:
        return ["reg", draw(st.sampled_from(["gpr", "gpr", "xmm", "ymm", "zmm", "mm", "*"]))]
    if k == 6:
        return ["regname", draw(st.sampled_from(["cl", "rax", "xmm0", "mm0", "CL"]))]
    if k == 7:
        return ["imm"]
    if k == 8:
        return ["id"]
    return ["mem", draw(st.sampled_from(["*", "*", "gpr", None])), draw(st.sampled_from(["*", "*", "imd", None])),
            draw(st.sampled_from(["*", "*", "gpr", None])), draw(st.sampled_from(["*", "*", 1, 8, 4]))]


@st.composite
def x86_operand_for(draw, pat, miss):
    """descriptor of an operand that matches pat (miss=False) or is of a clearly different kind (miss=True)"""
    k = pat[0]
    if not miss:
        if k == "reg":
            cls = pat[1] if pat[1] != "*" else draw(st.sampled_from(["gpr", "xmm", "zmm"]))
            return ["reg", cls, draw(st.sampled_from(X86_REGS[cls]))]
        if k == "regname":
            n = pat[1]
            n = draw(st.sampled_from([n.lower(), n.upper()]))
            cls = "gpr" if not n.lower().startswith(("xmm", "mm")) else ("xmm" if n.lower().startswith("x") else "mm")
            return ["reg", cls, n]
        if k in ("imm", "id"):
            return [k]
        _, b, o, i, s = pat
        hb = draw(st.booleans()) if b == "*" else (b is not None)
        ho = draw(st.booleans()) if o == "*" else (o is not None)
        hi = draw(st.booleans()) if i == "*" else (i is not None)
        if not (hb or ho or hi):
            if b == "*":
                hb = True
            elif o == "*":
                ho = True
            elif i == "*":
                hi = True
            else:
                ho = None  # impossible pattern (no component): not instantiable
        if s == "*":
            sc = draw(st.sampled_from([1, 2, 4, 8])) if hi else 1
        elif s == 1:
            sc = 1
        else:
            sc = draw(st.sampled_from([2, 4, 8]))
        if sc != 1 and not hi:
            return None  # a scale needs an index register
        if ho is None:
            return None
        return ["mem", hb, ho, hi, sc]
    # near miss: clearly different kind
    if k == "reg":
        if pat[1] == "*":
            return draw(st.sampled_from([["imm"], ["mem", True, False, False, 1]]))
        others = [c for c in ["gpr", "xmm", "ymm", "zmm", "mm"] if c != pat[1]] if pat[1] != "mm" else ["gpr", "xmm"]
        if draw(st.booleans()):
            cls = draw(st.sampled_from(others))
            return ["reg", cls, draw(st.sampled_from(X86_REGS[cls]))]
        return draw(st.sampled_from([["imm"], ["mem", True, True, False, 1]]))
    if k == "regname":
        n = pat[1].lower()
        if n.startswith("xmm"):
            return ["reg", "ymm", "ymm1"]
        if n.startswith("mm"):
            return ["reg", "xmm", "xmm7"]
        return draw(st.sampled_from([["reg", "xmm", "xmm7"], ["imm"]]))
    if k == "imm":
        return draw(st.sampled_from([["reg", "gpr", "rax"], ["mem", True, False, False, 1]]))
    if k == "id":
        return ["reg", "gpr", "rax"]
    _, b, o, i, s = pat
    cands = [["reg", "gpr", "rax"], ["imm"]]
    if i is None:
        cands.append(["mem", True, o not in (None,), True, 1 if s in ("*", 1) else 4])
    elif i == "gpr":
        cands.append(["mem", b is not None and b != None, o == "imd", False, 1])
    if b is None and (o is not None or i is not None):
        cands.append(["mem", True, o not in (None,), i not in (None,), 1 if s in (1,) or not i else (1 if s == "*" else 4)])
    c = draw(st.sampled_from(cands))
    if c[0] == "mem" and not (c[1] or c[2] or c[3]):
        c = ["imm"]
    return c


def x86_matches(pat, op):
    """R-match: does pattern descriptor accept operand descriptor"""
    if op is None:
        return False
    k = pat[0]
    if k == "reg":
        return op[0] == "reg" and (pat[1] == "*" or op[1] == pat[1])
    if k == "regname":
        return op[0] == "reg" and op[2].lower() == pat[1].lower()
    if k == "imm":
        return op[0] == "imm"
    if k == "id":
        return op[0] == "id"
    if op[0] != "mem":
        return False
    _, b, o, i, s = pat
    _, hb, ho, hi, sc = op
    if b != "*" and (b is not None) != hb:
        return False
    if o != "*" and (o is not None) != ho:
        return False
    if i != "*":
        # a pattern naming the index class gpr wants a general-purpose index; "v" = vector (VSIB) index
        if (i is None and hi) or (i is not None and hi is not True):
            return False
    if s != "*" and not (s == sc or (s != 1 and sc != 1)):
        return False
    return True


def x86_pat_yaml(p):
    if p[0] == "reg":
        return {"class": "register", "name": p[1]}
    if p[0] == "regname":
        return {"class": "register", "name": p[1]}
    if p[0] == "imm":
        return {"class": "immediate", "imd": "int"}
    if p[0] == "id":
        return {"class": "identifier"}
    return {"class": "memory", "base": p[1], "offset": p[2], "index": p[3], "scale": p[4]}


def x86_op_text(op, v=0):
    if op[0] == "reg":
        return "%" + op[2]
    if op[0] == "imm":
        return ["$1", "$-8", "$0x20", "$0"][v % 4]
    if op[0] == "id":
        return [".L5", "foo"][v % 2]
    _, hb, ho, hi, sc = op
    s = ["8", "-16", "0x40"][v % 3] if ho else ""
    if not hb and not hi:
        return ["8", "64", "0x40"][v % 3]
    s += "(" + ("%rbx" if hb else "")
    if hi:
        s += ("," + ["%ymm1", "%xmm3", "%zmm2"][v % 3] if hi == "v" else ",%rsi") + "," + str(sc)
    return s + ")"


# ---- AArch64
A_PREF = ["x", "w", "d", "s", "q", "b", "h"]


@st.composite
def a64_pattern(draw):
    k = draw(st.integers(0, 14))
    if k <= 4:
        return ["reg", draw(st.sampled_from(A_PREF + ["*"])), None]
    if k <= 6:
        return ["reg", draw(st.sampled_from(["v", "v", "z", "*"])), draw(st.sampled_from(["s", "d", "b", "*"]))]
    if k == 7:
        return ["reg", "p", None]
    if k == 8:
        return ["imm", draw(st.sampled_from(["int", "int", "double", "*"]))]
    if k == 9:
        return ["id"]
    if k == 10:
        return ["cc", draw(st.sampled_from(["*", "EQ", "NE", "GT", "ne"]))]
    pre, post = draw(st.sampled_from([(False, False), (False, False), (True, False), (False, True), ("*", "*")]))
    return ["mem", draw(st.sampled_from(["*", "*", "imd", None])), draw(st.sampled_from(["*", "*", "x", None])),
            draw(st.sampled_from(["*", "*", 1, 8])), pre, post]


@st.composite
def a64_operand_for(draw, pat, miss):
    k = pat[0]
    if not miss:
        if k == "reg":
            p, sh = pat[1], pat[2]
            if sh is None:
                if p == "*":
                    p = draw(st.sampled_from(["x", "w", "d"]))
                return ["reg", p, None]
            if p == "*":
                p = draw(st.sampled_from(["v", "z"]))
            if sh == "*":
                sh = draw(st.sampled_from(["s", "d", "b"]))
            return ["reg", p, sh]
        if k == "imm":
            t = pat[1] if pat[1] != "*" else draw(st.sampled_from(["int", "double"]))
            return ["imm", t]
        if k == "id":
            return ["id"]
        if k == "cc":
            c = pat[1].upper() if pat[1] != "*" else draw(st.sampled_from(["EQ", "LT", "HI"]))
            return ["cc", c]
        _, o, i, s, pre, post = pat
        if pre == "*":
            pre, post = draw(st.sampled_from([(False, False), (True, False), (False, True)]))
        hi = draw(st.booleans()) if i == "*" else (i is not None)
        ho = draw(st.booleans()) if o == "*" else (o is not None)
        if pre or post:
            if i not in ("*", None) or o is None and pre:
                return None
            hi = False
            ho = bool(pre)
            if o is None and ho:
                return None
            if o == "imd" and not ho:
                return None
        if hi and ho:
            if o == "*":
                ho = False
            elif i == "*":
                hi = False
            else:
                return None
        if s == "*":
            sc = draw(st.sampled_from([1, 4, 8])) if hi else 1
        elif s == 1:
            sc = 1
        else:
            sc = draw(st.sampled_from([4, 8]))
        if sc != 1 and not hi:
            return None
        return ["mem", ho, "x" if hi else None, sc, bool(pre), bool(post)]
    # near misses
    if k == "reg":
        p, sh = pat[1], pat[2]
        if p == "*":
            return draw(st.sampled_from([["imm", "int"], ["mem", False, None, 1, False, False]]))
        if sh is None:
            if p == "p":
                return draw(st.sampled_from([["reg", "x", None], ["imm", "int"]]))
            others = [q for q in A_PREF if q != p]
            return draw(st.sampled_from([["reg", draw(st.sampled_from(others)), None], ["imm", "int"],
                                         ["reg", "v", "d"]]))
        other_p = "z" if p == "v" else "v"
        cands = [["reg", other_p, sh if sh != "*" else "d"], ["reg", "x", None]]
        if sh != "*":
            cands.append(["reg", p, "h" if sh != "h" else "s"])
        return draw(st.sampled_from(cands))
    if k == "imm":
        cands = [["reg", "x", None], ["id"]] if False else [["reg", "x", None]]
        if pat[1] == "int":
            cands.append(["imm", "double"])
        if pat[1] == "double":
            cands.append(["imm", "int"])
        return draw(st.sampled_from(cands))
    if k == "id":
        return ["reg", "x", None]
    if k == "cc":
        if pat[1] != "*":
            return draw(st.sampled_from([["cc", "VS"], ["reg", "x", None]]))
        return ["reg", "x", None]
    _, o, i, s, pre, post = pat
    cands = [["reg", "x", None], ["imm", "int"]]
    if pre is False and post is False:
        cands += [["mem", True, None, 1, True, False], ["mem", False, None, 1, False, True]]
    if pre is True:
        cands += [["mem", True, None, 1, False, False]]
    if post is True:
        cands += [["mem", False, None, 1, False, False]]
    if i is None and pre is not True and post is not True:
        cands += [["mem", False, "x", 1 if s in ("*", 1) else 8, False, False]] if pre in (False, "*") else []
    if i == "x":
        cands += [["mem", o == "imd", None, 1, False, False]] if pre in (False, "*") else []
    return draw(st.sampled_from(cands))


def a64_matches(pat, op):
    if op is None:
        return False
    k = pat[0]
    if k == "reg":
        if op[0] != "reg":
            return False
        p, sh = pat[1], pat[2]
        if p != "*" and p != op[1]:
            return False
        if op[2] is not None:
            return sh is not None and (sh == "*" or sh == op[2])
        return True if sh is None else None  # shapeless operand vs shaped pattern: not classified
    if k == "imm":
        return op[0] == "imm" and (pat[1] == "*" or pat[1] == op[1])
    if k == "id":
        return op[0] == "id"
    if k == "cc":
        return op[0] == "cc" and (pat[1] == "*" or pat[1].upper() == op[1])
    if op[0] != "mem":
        return False
    _, o, i, s, pre, post = pat
    _, ho, ix, sc, opre, opost = op
    if o != "*" and (o is not None) != ho:
        return False
    if i != "*" and (i is not None) != (ix is not None):
        return False
    if s != "*" and not (s == sc or (s != 1 and sc != 1)):
        return False
    if pre != "*" and bool(pre) != opre:
        return False
    if post != "*" and bool(post) != opost:
        return False
    return True


def a64_pat_yaml(p):
    if p[0] == "reg":
        d = {"class": "register", "prefix": p[1]}
        if p[2] is not None:
            d["shape"] = p[2]
        return d
    if p[0] == "imm":
        return {"class": "immediate", "imd": p[1]}
    if p[0] == "id":
        return {"class": "identifier"}
    if p[0] == "cc":
        return {"class": "condition", "ccode": p[1]}
    return {"class": "memory", "base": "x", "offset": p[1], "index": p[2], "scale": p[3],
            "pre_indexed": p[4], "post_indexed": p[5]}


def a64_op_text(op, v=0):
    if op[0] == "reg":
        n = ["1", "7", "19"][v % 3]
        p, sh = op[1], op[2]
        if sh is None:
            return p + (["1", "5"][v % 2] if p == "p" else n)
        if p == "v":
            return "v%s.%s%s" % (n, {"s": "4", "d": "2", "b": "16", "h": "8"}[sh], sh)
        return "%s%s.%s" % (p, n, sh)
    if op[0] == "imm":
        # (zero is an immediate like any other)
        return ["#1", "#0x10", "12", "#0", "#0x0", "0"][v % 6] if op[1] == "int" else ["#1.5", "#2.0e+1", "#0.0"][v % 3]
    if op[0] == "id":
        return [".L5", "foo"][v % 2]
    if op[0] == "cc":
        return op[1].lower() if v % 2 else op[1]
    _, ho, ix, sc, pre, post = op
    b = ["x2", "sp", "x11"][v % 3]
    if pre:
        return "[%s, #16]!" % b
    if post:
        # post-index by an immediate or (LD1/ST1 family) by a register: both are post-indexed addressing
        return "[%s], #16" % b if v % 3 else "[%s], x12" % b
    s = "[" + b
    if ho:
        s += ", #8"
    if ix:
        s += ", x4"
        if sc != 1:
            s += ", lsl #%d" % {2: 1, 4: 2, 8: 3}[sc]
    return s + "]"


# ------------------------------------------------------------------ case generation
@st.composite
def match_cases(draw, isa):
    pat_s = x86_pattern() if isa == "x86" else a64_pattern()
    opfor = x86_operand_for if isa == "x86" else a64_operand_for
    nm = draw(st.integers(1, 3))
    names = draw(st.lists(st.sampled_from(["mata", "vmatx", "matq", "Matl", "matt", "fooa", "MATB", "mat.eq", "mat"]),
                          min_size=nm, max_size=nm, unique_by=lambda s: s.lower()))
    if isa == "x86":
        names = [n for n in names if "." not in n] or ["mata"]
    entries = []
    for n in names:
        k = draw(st.integers(1, 6))
        for _ in range(k):
            nops = draw(st.integers(0, 3))
            pats = [draw(pat_s) for _ in range(nops)]
            for pos in range(nops):
                # valid operand order only: x86 label operands come first; AArch64 condition codes never first,
                # memory operand last
                for _try in range(8):
                    bad = ((isa == "x86" and pats[pos][0] == "id" and pos > 0)
                           or (isa == "aarch64" and pats[pos][0] == "cc" and pos == 0)
                           or (isa == "aarch64" and pats[pos][0] == "mem" and pos != nops - 1)
                           or (isa == "aarch64" and pats[pos][0] == "id" and pos != nops - 1))
                    if not bad:
                        break
                    pats[pos] = draw(pat_s)
                else:
                    pats[pos] = ["reg", "gpr"] if isa == "x86" else ["reg", "x", None]
            if draw(st.integers(0, 5)) == 0 and entries:
                pats = list(draw(st.sampled_from(entries))["pats"])  # duplicate / shadowing entry
            entries.append({"name": n, "pats": pats})
    draw(st.randoms(use_true_random=False)).shuffle(entries)
    # the instruction: derived from one entry
    tgt = draw(st.sampled_from(entries))
    mode = draw(st.sampled_from(["exact", "exact", "exact", "miss1", "count", "suffix", "case"]))
    ops = []
    miss_at = draw(st.integers(0, max(0, len(tgt["pats"]) - 1))) if mode == "miss1" and tgt["pats"] else None
    for i, p in enumerate(tgt["pats"]):
        ops.append(draw(opfor(p, miss_at == i)))
    if isa == "x86" and mode in ("exact", "miss1") and draw(st.integers(0, 5)) == 0:
        # gather/scatter addressing: a vector register as index is another operand kind than a gpr index
        for o_ in ops:
            if o_ and o_[0] == "mem" and o_[3] is True:
                o_[3] = "v"
                break
    if mode == "count":
        if ops and draw(st.booleans()):
            ops = ops[:-1]
        elif isa == "aarch64" and ops and ops[-1] and ops[-1][0] == "mem":
            # a register after an AArch64 memory operand is its post-index register ("[sp], x19"), not one more
            # operand: the additional operand goes in front
            ops = [["reg", "x", None]] + ops
        else:
            ops = ops + [["reg", "gpr", "rax"] if isa == "x86" else ["reg", "x", None]]
    mnem = tgt["name"]
    if mode == "suffix":
        mnem = mnem + (draw(st.sampled_from(["q", "l", "b", "x", "t"])) if isa == "x86" else
                       draw(st.sampled_from([".ne", ".4s", "s"])))
    if mode == "case":
        mnem = draw(st.sampled_from([mnem.upper(), mnem.lower(), mnem.capitalize()]))
    return {"isa": isa, "entries": entries, "mnemonic": mnem, "operands": ops, "mode": mode,
            "variant": draw(st.integers(0, 5))}


# ------------------------------------------------------------------ evaluation
class Runner:
    def __init__(self):
        from osaca.parser import ParserAArch64, ParserX86ATT

        self.wd = synth.Workdir()
        self.parsers = {"x86": ParserX86ATT(), "aarch64": ParserAArch64()}
        self.isa_files = {isa: self.wd.write(synth.isa_model(isa if isa == "x86" else "AArch64", []), stem="isa")
                          for isa in ("x86", "aarch64")}


_R = {}


def expected_entry(case):
    """index of the entry R-match expects (or None) after the documented suffix fall-back; 'skip' if the
    property does not classify the case"""
    isa = case["isa"]
    matches = x86_matches if isa == "x86" else a64_matches
    ops = case["operands"]
    if any(o is None for o in ops):
        return "skip"

    def lookup(name):
        for idx, e in enumerate(case["entries"]):
            if e["name"].upper() != name.upper() or len(e["pats"]) != len(ops):
                continue
            res = [matches(p, o) for p, o in zip(e["pats"], ops)]
            if any(r is None for r in res):
                return "skip"
            if all(res):
                return idx
        return None

    m = case["mnemonic"]
    r = lookup(m)
    if r is None and isa == "x86" and m[-1] in "bswlqt":
        r = lookup(m[:-1])
    if r is None and isa == "aarch64" and "." in m:
        r = lookup(m[:m.index(".")])
    return r


def check_case(case):
    from checks.c01 import _rm
    from osaca.semantics import ArchSemantics, MachineModel

    if case.get("kind") == "sweep":
        return check_sweep_entry(case)
    if "r" not in _R:
        _R["r"] = Runner()
    r = _R["r"]
    isa = case["isa"]
    exp = expected_entry(case)
    if exp == "skip":
        return {"nontrivial": False, "classes": ["skipped-not-instantiable"]}
    paty = x86_pat_yaml if isa == "x86" else a64_pat_yaml
    optext = x86_op_text if isa == "x86" else a64_op_text
    forms = []
    for idx, e in enumerate(case["entries"]):
        forms.append({"name": e["name"], "operands": [paty(p) for p in e["pats"]], "throughput": 1.0,
                      "latency": float(100 + idx), "port_pressure": [[1, "0"]]})
    arch = synth.arch_model(isa if isa == "x86" else "AArch64", ["0", "1"], forms)
    path = r.wd.write(arch)
    try:
        mm, sem = guard(synth.load_arch, path, r.isa_files[isa], what="model load")
        text = case["mnemonic"] + " " + ", ".join(optext(o, case["variant"] + i)
                                                  for i, o in enumerate(case["operands"]))
        line = guard(r.parsers[isa].parse_line, text.strip(), 1, what="parse_line(%r)" % text)
        if line.mnemonic != case["mnemonic"]:
            return {"nontrivial": False, "classes": ["skipped-mnemonic-not-parsed-as-written"]}
        if len(line.operands) != len(case["operands"]):
            # the text denotes other operands than intended (parser fidelity is C09/C10's subject)
            return {"nontrivial": False, "classes": ["skipped-text-denotes-other-operands"],
                    "excluded": {"text-denotes-other-operands": 1}}
        def entry_index(f):
            return None if f is None else int(round(f.latency - 100))

        m_ = line.mnemonic
        f = guard(mm.get_instruction, m_, line.operands, what="get_instruction")
        if f is None and isa == "x86" and m_[-1] in "bswlqt":
            f = guard(mm.get_instruction, m_[:-1], line.operands, what="get_instruction")
        if f is None and isa == "aarch64" and "." in m_:
            f = guard(mm.get_instruction, m_[:m_.index(".")], line.operands, what="get_instruction")
        got = entry_index(f)
        if not any(o[0] == "mem" for o in case["operands"]):
            # without a memory operand no composition can step in: the flags must tell the same story
            guard(sem.assign_src_dst, line, what="assign_src_dst")
            guard(sem.assign_tp_lt, line, what="assign_tp_lt")
            unknown = "tp_unknown" in line.flags and "lt_unknown" in line.flags
            got2 = None if unknown else int(round(line.latency - 100))
            if got2 != got:
                raise Violation("flags-vs-lookup:%s" % isa, "assign_tp_lt and get_instruction disagree for %r" % text,
                                got2, got)
    finally:
        _rm(path)
    tag = "%s:%s" % (isa, case["mode"])
    if exp is None and got is not None:
        kinds = "+".join(sorted({o[0] for o in case["operands"]})) or "noops"
        raise Violation("applied-to-mismatch:%s:%s" % (tag, kinds),
                        "entry #%d applied to %r although no entry matches its operand kinds/count" % (got, text),
                        got, None)
    if exp is not None and got is None:
        kinds = "+".join(sorted({p[0] for p in case["entries"][exp]["pats"]})) or "noops"
        raise Violation("unknown-despite-match:%s:%s" % (tag, kinds),
                        "%r reported unknown although entry #%d declares exactly these operand kinds" % (text, exp),
                        None, exp)
    if exp is not None and got != exp:
        raise Violation("wrong-entry:%s" % tag, "%r resolved to entry #%d, first matching entry in file order "
                        "is #%d" % (text, got, exp), got, exp)
    same_name = [i for i, e in enumerate(case["entries"]) if e["name"].upper() == case["entries"][exp]["name"].upper()] \
        if exp is not None else []
    nt = (exp is not None and len(same_name) >= 2 and exp != same_name[0]) or case["mode"] == "miss1"
    cl = [isa, "mode:" + case["mode"], "expect-unknown" if exp is None else "expect-entry"]
    for o in case["operands"]:
        cl.append("op:" + o[0])
    return {"nontrivial": nt, "classes": sorted(set(cl)),
            "key": [case["entries"], case["mnemonic"], case["operands"]],
            "sample": {"isa": isa, "entries": case["entries"], "instruction": text, "expected_entry": exp}}


# ------------------------------------------------------------------ sweep over shipped entries
_SW = {}


def sweep_model(name):
    from osaca import utils
    from osaca.parser import ParserAArch64, ParserX86ATT
    from osaca.semantics import MachineModel

    if name not in _SW:
        _SW.clear()
        if name.startswith("isa/"):
            mm = guard(MachineModel, path_to_yaml=utils.find_datafile(name + ".yml"), what="MachineModel")
        else:
            mm = guard(MachineModel, arch=name, what="MachineModel")
        isa = mm.get_ISA()
        _SW[name] = (mm, isa, ParserX86ATT() if isa == "x86" else ParserAArch64())
    return _SW[name]


def check_sweep_entry(case):
    from lib import entries

    mm, isa, parser = sweep_model(case["model"])
    forms = mm._data["instruction_forms_dict"][case["name"]]
    f = forms[case["idx"]]
    v = case["variant"]
    try:
        text = entries.entry_text(isa, case["name"], f.operands, v)
    except entries.Unsupported as e:
        return {"nontrivial": False, "classes": ["sweep:pattern-not-expressible"]}
    try:
        line = parser.parse_line(text, 1)
    except Exception:
        return {"nontrivial": False, "classes": ["sweep:text-not-parsable"]}
    if line.mnemonic is None or line.mnemonic.upper() != case["name"]:
        return {"nontrivial": False, "classes": ["sweep:mnemonic-not-as-written"]}
    got = guard(mm.get_instruction, line.mnemonic, line.operands, what="get_instruction(%s)" % text)
    if got is None:
        kinds = []
        for o in f.operands:
            kinds.append(type(o).__name__.replace("Operand", "").lower() +
                         (":" + str(getattr(o, "name", None) or getattr(o, "imd_type", "") or "")
                          if type(o).__name__ in ("RegisterOperand", "ImmediateOperand") and
                          (getattr(o, "name", None) or getattr(o, "imd_type", None)) else ""))
        raise Violation("sweep-unknown:%s:%s" % (case["model"], "|".join(sorted(set(kinds)))),
                        "%r, written with exactly the operand kinds entry %s #%d of %s declares, is reported "
                        "unknown" % (text, case["name"], case["idx"], case["model"]), None, case["name"])
    extra_cl = []
    if got is not f:
        # another entry answered: it must itself declare the kinds of these operands (R-match over descriptors)
        verdict = rmatch_objects(isa, got.operands, line.operands)
        if verdict is False:
            raise Violation("sweep-wrong-entry:%s:%s" % (case["model"], isa),
                            "%r (written from entry %s #%d of %s) is answered by another entry of the mnemonic whose "
                            "operand pattern does not accept these operand kinds: %s" % (
                                text, case["name"], case["idx"], case["model"], [str(o)[:60] for o in got.operands]),
                            [str(o)[:80] for o in got.operands], text)
        extra_cl.append("sweep:other-entry-" + ("accepts" if verdict else "not-classified"))
    return {"nontrivial": len(forms) >= 2 and got is not forms[0], "classes": [
        "sweep", "sweep:self" if got is f else "sweep:earlier-or-other-entry"] + extra_cl,
        "key": [case["model"], case["name"], case["idx"], v],
        "sample": {"model": case["model"], "entry": case["name"], "instruction": text}}


def x86_regclass(name):
    n = name.lower()
    for c in ("xmm", "ymm", "zmm"):
        if n.startswith(c):
            return c
    if n.startswith("mm") and n[2:].isdigit():
        return "mm"
    if n.startswith("k") and n[1:].isdigit():
        return "k"
    return "gpr"


def rmatch_objects(isa, pats, ops):
    """R-match of a shipped entry's operand objects against parsed operands, via the abstract descriptors.
    True / False / None (a pattern or operand outside the descriptor language: not classified)."""
    from osaca.parser.condition import ConditionOperand
    from osaca.parser.identifier import IdentifierOperand
    from osaca.parser.immediate import ImmediateOperand
    from osaca.parser.memory import MemoryOperand
    from osaca.parser.register import RegisterOperand

    if len(pats) != len(ops):
        return False
    res = True
    for p, o in zip(pats, ops):
        if isa == "x86":
            if isinstance(o, RegisterOperand):
                od = ["reg", x86_regclass(o.name), o.name]
            elif isinstance(o, ImmediateOperand):
                od = ["imm"]
            elif isinstance(o, IdentifierOperand):
                od = ["id"]
            elif isinstance(o, MemoryOperand):
                od = ["mem", o.base is not None, o.offset is not None, o.index is not None, o.scale]
            else:
                return None
            if isinstance(p, RegisterOperand):
                if p.name is None:
                    return None
                if p.name in ("*", "gpr", "xmm", "ymm", "zmm", "mm", "k"):
                    pd = ["reg", p.name]
                else:
                    pd = ["regname", p.name]
            elif isinstance(p, ImmediateOperand):
                pd = ["imm"]
            elif isinstance(p, IdentifierOperand):
                pd = ["id"]
            elif isinstance(p, MemoryOperand):
                def comp(x):
                    if isinstance(x, RegisterOperand):
                        return x.name
                    return x
                if comp(p.offset) not in ("*", "imd", None) or comp(p.base) not in ("*", "gpr", None) or \
                        comp(p.index) not in ("*", "gpr", None):
                    return None
                pd = ["mem", comp(p.base), comp(p.offset), comp(p.index), p.scale]
            else:
                return None
            m = x86_matches(pd, od)
        else:
            if isinstance(o, RegisterOperand):
                od = ["reg", o.prefix, o.shape]
            elif isinstance(o, ImmediateOperand):
                if o.imd_type not in ("int", "double", "float"):
                    return None
                od = ["imm", o.imd_type]
            elif isinstance(o, IdentifierOperand):
                od = ["id"]
            elif isinstance(o, ConditionOperand):
                od = ["cc", o.ccode]
            elif isinstance(o, MemoryOperand):
                od = ["mem", o.offset is not None, o.index.prefix if o.index is not None else None, o.scale,
                      bool(o.pre_indexed), bool(o.post_indexed)]
            else:
                return None
            if isinstance(p, RegisterOperand):
                pd = ["reg", p.prefix, p.shape]
                if p.prefix is None:
                    return None
            elif isinstance(p, ImmediateOperand):
                pd = ["imm", p.imd_type]
            elif isinstance(p, IdentifierOperand):
                pd = ["id"]
            elif isinstance(p, ConditionOperand):
                pd = ["cc", p.ccode]
            elif isinstance(p, MemoryOperand):
                off, idx = p.offset, p.index
                if isinstance(idx, RegisterOperand):
                    idx = idx.prefix
                if off not in ("*", "imd", None) or idx not in ("*", "x", "w", "z", None) or isinstance(p.post_indexed, dict):
                    return None
                pd = ["mem", off, idx, p.scale, p.pre_indexed, p.post_indexed]
                if idx in ("w", "z") or od[2] in ("w", "z"):
                    return None
            else:
                return None
            m = a64_matches(pd, od)
        if m is None:
            res = None if res is not False else False
        elif m is False:
            return False
    return res


def plan(tier, seed):
    n = {"quick": 500, "thorough": 10000}[tier]
    shards = [{"kind": "synthetic", "isa": "x86" if i % 2 == 0 else "aarch64", "seed": seed * 1000 + 700 + i, "n": n}
              for i in range(8)]
    groups = [["icl"], ["ivb"], ["snb", "zen1", "tx2", "n1"], ["hsw", "isa/x86"], ["icx", "zen3"], ["spr", "zen2"],
              ["zen4", "a64fx", "tsv110"], ["a72", "m1", "v2", "isa/aarch64"]]
    for g in groups:
        shards.append({"kind": "sweep", "models": g})
    return shards


def run_shard(spec):
    stats = Stats()
    if spec["kind"] == "sweep":
        failures = {}
        for model in spec["models"]:
            mm, isa, parser = sweep_model(model)
            for name, forms in mm._data["instruction_forms_dict"].items():
                for idx in range(len(forms)):
                    for v in range(3):
                        case = {"kind": "sweep", "model": model, "name": name, "idx": idx, "variant": v}
                        try:
                            info = check_sweep_entry(case)
                        except Violation as vi:
                            stats.evaluations += 1
                            if vi.bucket not in failures:
                                failures[vi.bucket] = failure_record(ID, case, vi)
                            continue
                        stats.record(case, info)
        return {"stats": stats.to_dict(), "failures": list(failures.values()), "exhaustive": False}
    failures = hyp_search(ID, match_cases(spec["isa"]), check_case, stats, seed=spec["seed"],
                          max_examples=spec["n"])
    return {"stats": stats.to_dict(), "failures": failures}


def replay(case):
    return check_case(case)


LEVEL_TEXT = ("Randomised differential testing of the matcher against an independent matcher over abstract operand "
              "kinds on generated model files (both ISAs), plus a complete self-match sweep over every entry of every "
              "shipped model and ISA database.")
LEVEL_NOTE = ("Trusted: R-match (checks/c07.py) and the operand renderers; near misses are restricted to clearly "
              "different kinds; alias-list ordering (F-C07-2) is outside the synthetic generator.")
TECHNIQUE = "property-based differential testing against a reference matcher + exhaustive self-match sweep of shipped entries"
