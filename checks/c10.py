"""C10 - AArch64 parser recovers every line and operand exactly as written."""
from lib import roundtrip

ID = "C10"
LEVEL = "exploration"
WARM = []
RULE = (
    "Hypothesis-generated files of 1-14 lines mixing instruction lines (rendered from random ASTs in valid operand "
    "order, memory operand last: scalar x/w/b/h/s/d/q, sp, xzr/wzr, vector registers with lanes/shape/element index, "
    "SVE z and predicate registers with /m /z or shape, register lists and ranges with optional index, immediates "
    "with/without '#', decimal/hex/negative, floating point with and without exponent, condition codes in either "
    "case, labels, memory references base / base+imm / base+index / index with lsl|sxtw|uxtw #n / extend without "
    "amount / pre-index '!' / post-index immediate, sp base) with generated layout and trailing '//' comments, and "
    "blank lines, comments, labels, directives. Oracle: render->parse round trip as in C09 (lists/ranges expanded, "
    "scale = 2^n). Non-trivial: file containing an instruction with >=3 operands, a memory operand with >=2 "
    "components, a register list/range or an immediate outside 0..255. Distinct = distinct file text."
)
ASSUMPTIONS = [
    "shift amounts inside memory operands are written in decimal; shifted plain register operands are not generated",
    "wsp is not generated (the parser documents sp as x-prefixed)",
]
MIN_NONTRIVIAL = {"quick": 1500, "thorough": 20000}
plan, run_shard, replay = roundtrip.make_check(ID, "aarch64")
LEVEL_TEXT = ("Randomised render-then-parse round trip (Hypothesis, 16 seeded shards) over a grammar-directed "
              "generator of AArch64 lines and files; evidence proportional to the number of lines explored.")
LEVEL_NOTE = "Trusted: the renderer/AST in lib/asmgen.py and the canonicalisation of parsed operands in lib/roundtrip.py."
TECHNIQUE = "property-based round-trip testing (render random instruction ASTs, parse, compare field by field)"
