"""C18 - analyses are independent of what was analysed before in the same process."""
import json
import os
import subprocess
import tempfile

from hypothesis import strategies as st

from lib import cli, core, corpus, env, report
from lib.core import Stats, Violation, hyp_search

ID = "C18"
LEVEL = "exploration"
WARM = None
MAX_PARALLEL = 16
RULE = (
    "Hypothesis-generated sequences (length 2-10, with repetitions) of (kernel, --arch, options) drawn from the "
    "shipped kernels plus variants padded to 50 and more lines (multi-process search), with a form feed / vertical tab on one line, with an unknown mnemonic, with a read-modify-write / memory-composed "
    "instruction, and with stack-pointer traffic (write-back through sp; store, sp arithmetic, load), mixing ISAs, models and --fixed / -f / --ignore-unknown; each sequence runs in one fresh process "
    "(a) through osaca.osaca.run element by element and (b) library style with one MachineModel/ArchSemantics per "
    "architecture reused for all its kernels (how Kerncraft embeds OSACA). Oracle: every report equals, apart from "
    "timestamp and file name, the report a fresh process produces for that element alone. Non-trivial: an element "
    "preceded by a different kernel on the same model, or by the same kernel with other options. Distinct = "
    "distinct (sequence, mode); evaluations count sequence elements."
)
ASSUMPTIONS = ["fresh-process reports are memoised per shard (same code, same argv => same fresh report)"]
MIN_NONTRIVIAL = {"quick": 60, "thorough": 240}
SHARD_TIMEOUT = {"quick": 1500, "thorough": 7200}


def pool(isa_filter=None):
    ks = corpus.kernels()
    sel = []
    for name, isa, lines in ks:
        if len(lines) > 32:
            continue
        sel.append((name, isa, lines))
    return sel


VARIANT = {
    "x86": {"unknown": "foobar %rax, %rbx", "rmw": "addq $1, 8(%rax)", "composed": "vaddpd 16(%rbx), %xmm1, %xmm2",
            "stack": "pushq %rbp\nmovq %rax, 8(%rsp)\naddq $16, %rsp\nmovq 8(%rsp), %rbx",
            "stackwb": "popq %rbp"},
    "aarch64": {"unknown": "foobar x1, x2", "rmw": "ldr x5, [x6], #8", "composed": "str q1, [x7, #16]",
                # stack-pointer traffic: write-back through sp, then sp arithmetic between a store and a load
                "stack": "str x1, [sp, #8]\nadd sp, sp, #16\nldr x2, [sp, #8]",
                "stackwb": "ldp x29, x30, [sp], #16\nstp x29, x30, [sp, #-16]!"},
}


PAIR_KERNEL = {
    "x86": "vmulsd %xmm0, %xmm1, %xmm2\nvmovsd %xmm2, 8(%rsp)\naddq $16, %rsp\nvmovsd 8(%rsp), %xmm4\n"
           "vaddsd %xmm4, %xmm4, %xmm5\nvaddsd %xmm5, %xmm5, %xmm6",
    "aarch64": "fmul d2, d0, d1\nstr d2, [sp, #8]\nadd sp, sp, #16\nldr d4, [sp, #8]\nfadd d5, d4, d4\n"
               "fadd d6, d5, d5",
}


@st.composite
def sequences(draw, kernels):
    n = draw(st.integers(2, 10))
    # few distinct elements, many repetitions
    base = []
    for _ in range(draw(st.integers(1, 4))):
        name, isa, lines = draw(st.sampled_from(kernels))
        archs = env.X86_ARCHS if isa == "x86" else env.A64_ARCHS
        var = draw(st.sampled_from([None, None, "unknown", "rmw", "composed", "stack", "stackwb", "odd-whitespace", "big", "big"]))
        body = list(lines)
        if var == "big":
            # padded to 50 and more lines with independent instructions: the multi-process LCD search is used
            from checks.c16 import PAD
            i_ = 0
            while len(body) < 52:
                body.insert((i_ * 5) % max(1, len(body)), PAD[isa][i_ % 20])
                i_ += 1
        elif var == "odd-whitespace":
            # a form feed / vertical tab next to the tokens of one line: whatever the tool makes of such a file
            # (report or parse error), it has to be the same after other analyses as in a fresh process
            pos = draw(st.integers(0, len(body) - 1))
            ws = draw(st.sampled_from(["\f", "\v"]))
            body[pos] = body[pos] + ws if draw(st.booleans()) else ws + body[pos]
        elif var:
            pos = draw(st.integers(0, len(body)))
            body[pos:pos] = VARIANT[isa][var].split("\n")
        base.append({"kernel": name, "isa": isa, "variant": var, "code": "\n".join(body) + "\n",
                     "archs": [draw(st.sampled_from(archs)) for _ in range(2)]})
    if draw(st.integers(0, 2)) == 0:
        # related pair: an analysis with write-back through the stack pointer, later one with sp arithmetic between a
        # store and a load (state kept on shared operand objects would carry over), same ISA, possibly other models
        isa = draw(st.sampled_from(["x86", "aarch64"]))
        ks = [k for k in kernels if k[1] == isa]
        archs = env.X86_ARCHS if isa == "x86" else env.A64_ARCHS
        for var in ("stackwb", "stack"):
            name, _, lines = draw(st.sampled_from(ks))
            if var == "stack":
                # small kernel whose critical path runs through the store / load pair: a dependency invented or lost
                # between them is visible in the report
                name, body = "stack-kernel", PAIR_KERNEL[isa].split("\n")
            else:
                body = list(lines)
                pos = draw(st.integers(0, len(body)))
                body[pos:pos] = VARIANT[isa][var].split("\n")
            base.append({"kernel": name, "isa": isa, "variant": var, "code": "\n".join(body) + "\n",
                         "archs": [draw(st.sampled_from(archs)) for _ in range(2)]})
        order = [len(base) - 2, len(base) - 1] + [draw(st.integers(0, len(base) - 1)) for _ in range(max(0, n - 2))]
    else:
        order = [draw(st.integers(0, len(base) - 1)) for _ in range(n)]
    seq = []
    for bi in order:
        b = base[bi]
        argv = ["--arch", draw(st.sampled_from(b["archs"])), "--lcd-timeout", "-1"]
        if draw(st.integers(0, 2)) == 0:
            argv.append("--fixed")
        if draw(st.integers(0, 3)) == 0:
            argv.append("--consider-flag-deps")
        if draw(st.booleans()):
            argv.append("--ignore-unknown")
        seq.append({"kernel": b["kernel"], "variant": b["variant"], "argv": argv, "code": b["code"]})
    return {"mode": draw(st.sampled_from(["cli", "lib"])), "elements": seq}


_FRESH = {}


def fresh(el):
    key = core.case_hash([el["argv"], el["code"]])
    if key not in _FRESH:
        rc, out, err = cli.run_subprocess(el["argv"], code=el["code"])
        if rc != 0:
            _FRESH[key] = {"error": err[-800:]}
        else:
            _FRESH[key] = report.normalise(out)
    return _FRESH[key]


def check_case(case):
    d = tempfile.mkdtemp(prefix="verif-c18-")
    try:
        jin, jout = os.path.join(d, "in.json"), os.path.join(d, "out.json")
        with open(jin, "w") as fh:
            json.dump({"mode": case["mode"], "elements": case["elements"]}, fh)
        p = subprocess.run([env.PY, "-m", "lib.seqrun", jin, jout], env=env.child_env(), cwd=env.VERIF,
                           capture_output=True, timeout=1200)
        if p.returncode != 0 or not os.path.exists(jout):
            raise core.HarnessError("seqrun failed: " + p.stderr.decode(errors="replace")[-800:])
        with open(jout) as fh:
            got = json.load(fh)["reports"]
    finally:
        import shutil
        shutil.rmtree(d, ignore_errors=True)
    sub = []
    nt_any = False
    for i, (el, g) in enumerate(zip(case["elements"], got)):
        ref = fresh(el)
        prev = case["elements"][:i]
        arch = el["argv"][1]
        nt = any(pe["argv"][1] == arch and (pe["code"] != el["code"] or pe["argv"] != el["argv"]) for pe in prev)
        sub.append(([case["mode"], [e["argv"] for e in case["elements"][:i + 1]],
                     [core.case_hash(e["code"]) for e in case["elements"][:i + 1]]], nt))
        nt_any = nt_any or nt
        if isinstance(ref, dict):
            if isinstance(g, dict):
                continue  # fails alone and in sequence alike: not a history effect (other properties' business)
            raise Violation("fresh-fails:" + case["mode"], "element %d fails in a fresh process but not in sequence" % i,
                            "ok", ref)
        if isinstance(g, dict):
            raise Violation("sequence-crash:%s:%s" % (case["mode"], el["variant"]),
                            "element %d (%s %s) raises when analysed after %d other analyses in the same process, "
                            "but not in a fresh process" % (i, el["kernel"], " ".join(el["argv"]), i), g["error"], None)
        if case["mode"] == "lib":
            # library-style text carries no arch warning and its own header file name: compare from the table on
            g_cmp, r_cmp = g, ref
        else:
            g_cmp, r_cmp = g, ref
        if g_cmp != r_cmp:
            gl, rl = g_cmp.split("\n"), r_cmp.split("\n")
            diff = [(a, b) for a, b in zip(gl, rl) if a != b][:3]
            prevk = "after-" + ("+".join(sorted({str(pe["variant"]) for pe in prev})) or "nothing")
            raise Violation("history-dependent:%s:%s" % (case["mode"], prevk),
                            "report of element %d (%s %s) differs from the fresh-process report" % (
                                i, el["kernel"], " ".join(el["argv"])), diff, None)
    cl = ["mode:" + case["mode"]] + ["variant:" + str(e["variant"]) for e in case["elements"]]
    return {"nontrivial": False, "sub": sub, "classes": sorted(set(cl)),
            "key": [case["mode"], [[e["argv"], core.case_hash(e["code"])] for e in case["elements"]]],
            "sample": {"mode": case["mode"], "sequence": [[e["kernel"], e["variant"], " ".join(e["argv"])]
                                                           for e in case["elements"]]}}


def plan(tier, seed):
    n = {"quick": 4, "thorough": 120}[tier]
    return [{"seed": seed * 1000 + 1800 + i, "n": n} for i in range(16)]


def run_shard(spec):
    stats = Stats()
    failures = hyp_search(ID, sequences(pool()), check_case, stats, seed=spec["seed"], max_examples=spec["n"],
                          shrink=False)
    return {"stats": stats.to_dict(), "failures": failures}


def replay(case):
    return check_case(case)


LEVEL_TEXT = ("Randomised testing over call histories: generated sequences of analyses executed in one process are "
              "compared element-wise with fresh-process runs, for the CLI entry point and for library-style reuse of "
              "model and semantics objects.")
LEVEL_NOTE = "Trusted: report normalisation (timestamp and file-name lines removed); the fresh-process report as reference."
TECHNIQUE = "property-based testing over generated call sequences, differential against fresh-process runs"
