"""C19 - LCD timeout yields sound partial results and leaves no workers behind."""
import os
import shutil
import subprocess
import tempfile
import time

from hypothesis import strategies as st

from lib import cli, core, env, report, sched
from lib.core import Stats, Violation, failure_record, guard, hyp_search

ID = "C19"
LEVEL = "fault_enumeration"
WARM = ["zen2", "zen1", "tx2", "isa/x86", "isa/aarch64"]
MAX_PARALLEL = 4
RULE = (
    "runs of the multi-process LCD search with a timeout, the harness owning the schedule (KernelDG subclass with "
    "injected per-chunk delays that records chunk completion): kernels = tests/test_files/kernel_x86_long_LCD.s "
    "(exponentially many paths), generated dense kernels (instructions reading and writing two registers) and "
    "ordinary kernels; timeouts {0, 1, 2, generous, -1}; worker completion placed clearly before the deadline "
    "(>=0.5 s), clearly after it (>=1 s), and 0.10-0.15 s before it (inside the last polling interval); plus CLI "
    "runs on the long-LCD kernel. Oracle: wall time <= timeout + 10 s, a worker held back until >= 1.5 s after the deadline never completes "
    "(placement 'staggered': workers due at 0.7 T, 1.6 T, 2.5 T), and on explosive kernels the time beyond the requested timeout differs by at "
    "most 4 s between timeout 0 and timeout 1 or 2 (measured twice before it counts); timed_out / footer warning <=> at least one "
    "chunk did not record completion; every reported dependency is a cycle of the untimed result with the same "
    "latency (where the untimed search finishes); port pressure totals and critical path equal the untimed run's; "
    "no child process of the analysing process is alive 0.5 s after return; timeout -1 or finishing in time => (compared with the single-process search of the same kernel) "
    "complete result, no warning. Non-trivial: a run in which the search was actually cut (>=1 chunk unfinished) "
    "and >=1 dependency was still reported, or a completion inside the last polling interval. Distinct = distinct "
    "(kernel, timeout, schedule)."
)
ASSUMPTIONS = [
    "a run whose recorded completion times deviate more than 0.25 s from the injected schedule (machine stalled) is "
    "discarded as inconclusive and counted, never reported",
    "at most four such runs execute concurrently",
]
MIN_NONTRIVIAL = {"quick": 6, "thorough": 24}
SHARD_TIMEOUT = {"quick": 1500, "thorough": 7200}


def dense_kernel(n):
    out = []
    for i in range(n):
        out.append("addq %rax, %rbx" if i % 2 == 0 else "addq %rbx, %rax")
    return out


def ladder_kernel(chain=35, layers=7):
    """a long dependent chain, then a two-wide ladder (every rung reads both registers of the rung before), then a
    join that feeds the chain again: 2^(layers+1) loop-carried cycles of chain+layers+2 instructions each - a search
    that finishes in a few seconds but has several hundred kilobytes of paths to deliver; >= 50 lines, so the real
    multi-process search is used"""
    out = ["vaddpd %ymm0, %ymm15, %ymm0"] * chain
    out += ["vaddpd %ymm0, %ymm14, %ymm1", "vmulpd %ymm0, %ymm14, %ymm2"]
    cur = (1, 2)
    for j in range(layers):
        nxt = (3, 4) if cur == (1, 2) else (1, 2)
        out += ["vaddpd %%ymm%d, %%ymm%d, %%ymm%d" % (cur[0], cur[1], nxt[0]),
                "vmulpd %%ymm%d, %%ymm%d, %%ymm%d" % (cur[0], cur[1], nxt[1])]
        cur = nxt
    out.append("vaddpd %%ymm%d, %%ymm%d, %%ymm0" % cur)
    return out


def check_ladder(case):
    """CLI run with a generous time-out on the ladder kernel: finishes in time => complete result (all cycles of
    the single-process search), no warning, returns long before the time-out"""
    lines = ladder_kernel()
    kernel, parser, mm, sem = prepare(case["arch"], lines)
    from osaca.semantics import KernelDG
    with sched.Patched(threshold=10 ** 9):
        ref = guard(KernelDG, kernel, parser, mm, sem, timeout=-1, what="KernelDG(single process)")
    ref_keys = sorted(ref.get_loopcarried_dependencies().keys())
    to = case["timeout"]
    t0 = time.time()
    try:
        rc, out, err = cli.run_subprocess(["--arch", case["arch"], "--lcd-timeout", str(to)],
                                          code="\n".join(lines) + "\n", timeout=to + 90)
    except subprocess.TimeoutExpired:
        raise Violation("cli-overrun:ladder", "CLI did not return within %d s with --lcd-timeout %s on a kernel whose "
                        "single-process search takes a few seconds" % (to + 90, to), ">%d s" % (to + 90), to)
    wall = time.time() - t0
    if rc != 0 or err.strip():
        raise Violation("cli-fails:ladder", "CLI run on the ladder kernel fails", (err or out)[-500:], None)
    rep = report.parse(out)
    if rep["warnings"]["lcd_timeout"]:
        if wall < to:
            raise Violation("cli-warning-without-cut:ladder", "time-out warning although the CLI returned after %.1f s "
                            "with --lcd-timeout %s" % (wall, to), wall, to)
        raise Violation("cli-overrun:ladder", "search that takes a few seconds was waited out to the time-out of %s s "
                        "and flagged as cut short (returned after %.1f s)" % (to, wall), wall, to)
    got = rep["lcds"]
    if len(got) != len(ref_keys):
        raise Violation("cli-incomplete:ladder", "search finished in time but %d of %d loop-carried dependencies are "
                        "reported" % (len(got), len(ref_keys)), len(got), len(ref_keys))
    return {"nontrivial": True, "classes": ["cli-ladder", "timeout:%s" % to], "key": ["ladder", case["arch"], to],
            "sample": {"cli": "ladder kernel (%d lines, %d cycles)" % (len(lines), len(ref_keys)), "timeout": to,
                       "wall": round(wall, 2)}}


def ordinary_kernel(isa):
    # label and comment lines are part of a kernel as compilers emit it; the last lines carry cycles of their own
    if isa == "x86":
        return [".L3:", "vaddpd %ymm1, %ymm2, %ymm2", "addq $8, %rax", "# body", "vmulpd %ymm2, %ymm3, %ymm3",
                "cmpq %rax, %rbx", "vfmadd231pd %ymm4, %ymm5, %ymm6", "subq $1, %rcx"]
    return [".L3:", "fadd d1, d2, d2", "add x3, x3, #8", "// body", "fmul d2, d3, d3", "subs x4, x4, #1",
            "fmadd d5, d6, d7, d5"]


_M = {}


def prepare(arch, lines):
    from osaca.parser import ParserAArch64, ParserX86ATT
    from osaca.semantics import ArchSemantics, MachineModel

    if arch not in _M:
        mm = guard(MachineModel, arch=arch, what="MachineModel")
        _M[arch] = (mm, guard(ArchSemantics, mm, what="ArchSemantics"))
    mm, sem = _M[arch]
    parser = ParserX86ATT() if env.isa_of(arch) == "x86" else ParserAArch64()
    kernel = guard(parser.parse_file, "\n".join(lines) + "\n", what="parse_file")
    guard(sem.add_semantics, kernel, what="add_semantics")
    return kernel, parser, mm, sem


def run_scheduled(case):
    """one timed run; returns observation dict"""
    from osaca.semantics import ArchSemantics

    kernel, parser, mm, sem = prepare(case["arch"], case["lines"])
    rec = tempfile.mkdtemp(prefix="verif-c19-")
    n = len(kernel)
    ch = sched.chunks(n, case["ncpu"])
    delays = {str(1 + a): d for (a, b), d in zip(ch, case["delays"])}
    cls = sched.make_class(delays=delays, record_dir=rec)
    try:
        with sched.Patched(ncpu=case["ncpu"], threshold=10 ** 9 if case.get("sequential") else 1):
            t0 = time.time()
            dg = guard(cls, kernel, parser, mm, sem, timeout=case["timeout"], what="KernelDG(timeout=%s)" % case["timeout"])
            wall = time.time() - t0
        time.sleep(0.5)
        kids = sched.children_of(os.getpid())
        done = {}
        for f in os.listdir(rec):
            key = f.split("-")[1]
            with open(os.path.join(rec, f)) as fh:
                txt = fh.read()
            try:
                done[key] = float(txt) - t0
            except ValueError:
                pass  # the worker was killed while writing its completion record: it did not finish
        rep, order = sched.lcd_repr(dg)
        cp = guard(dg.get_critical_path, what="get_critical_path")
        edges = {(int(a), int(b)): float(d["latency"]) for a, b, d in dg.dg.edges(data=True) if a == int(a)}
        return {"wall": wall, "timed_out": bool(dg.timed_out), "done": done, "chunks": [str(1 + a) for a, b in ch],
                "edges": edges,
                "lcd": rep, "kids": kids, "tp": list(ArchSemantics.get_throughput_sum(kernel)),
                "cp": sum(float(x.latency_cp) for x in cp), "start": t0}
    finally:
        shutil.rmtree(rec, ignore_errors=True)


_UNTIMED = {}


def untimed(case):
    key = core.case_hash([case["arch"], case["lines"]])
    if key not in _UNTIMED:
        if case.get("explosive"):
            _UNTIMED[key] = None
        else:
            # reference: the single-process search of the same kernel (complete by construction)
            c = dict(case, timeout=-1, delays=[0.0] * len(case["delays"]), sequential=True)
            _UNTIMED[key] = run_scheduled(c)
    return _UNTIMED[key]


def check_pair(case):
    """the overhead beyond the requested timeout must not depend on the timeout: the same explosive kernel with two
    timeouts (one of them 0); measured twice before a difference is reported"""
    worst = None
    for attempt in range(2):
        over = {}
        for to in case["timeouts"]:
            k = len(sched.chunks(len(case["lines"]), case["ncpu"]))
            obs = run_scheduled(dict(case, timeout=to, delays=[0.0] * k))
            if obs["kids"]:
                raise Violation("workers-left:%s:timeout=%s" % (case["label"], to), "worker processes still alive 0.5 s "
                                "after the analysis returned", obs["kids"], [])
            if not obs["timed_out"]:
                return {"nontrivial": False, "classes": ["pair:search-finished-in-time"]}
            over[to] = obs["wall"] - to
        diff = max(over.values()) - min(over.values())
        worst = diff if worst is None else min(worst, diff)
        if diff <= case["slack"]:
            break
    if worst > case["slack"]:
        raise Violation("overhead-depends-on-timeout:" + case["label"], "time beyond the requested timeout differs by "
                        "%.1f s between timeouts %s on the same kernel (overheads %s)" % (
                            worst, case["timeouts"], {k: round(v, 1) for k, v in over.items()}),
                        {str(k): round(v, 2) for k, v in over.items()}, "difference <= %s s" % case["slack"])
    return {"nontrivial": True, "classes": ["pair", "pair:" + case["label"]] + ["timeout:%s" % t for t in case["timeouts"]],
            "key": ["pair", case["label"], case["timeouts"], case["ncpu"]],
            "sample": {"kernel": case["label"], "timeouts": case["timeouts"],
                       "overhead_s": {str(k): round(v, 2) for k, v in over.items()}}}


def check_case(case):
    if case.get("kind") == "cli":
        return check_cli(case)
    if case.get("kind") == "pair":
        return check_pair(case)
    if case.get("kind") == "ladder":
        return check_ladder(case)
    obs = run_scheduled(case)
    to = case["timeout"]
    tag = "%s:timeout=%s" % (case["label"], to)
    if obs["kids"]:
        raise Violation("workers-left:" + tag, "worker processes still alive 0.5 s after the analysis returned",
                        obs["kids"], [])
    if to != -1 and obs["wall"] > to + 10:
        raise Violation("overrun:" + tag, "analysis returned %.1f s after start with timeout %s" % (obs["wall"], to),
                        obs["wall"], to + 10)
    unfinished = [c for c in obs["chunks"] if c not in obs["done"]]
    if to > 0:
        for c, d in zip(obs["chunks"], case["delays"]):
            # the time-out is a deadline for the whole search, not the longest pause between two workers finishing
            if d >= to + 1.5 and c in obs["done"]:
                raise Violation("deadline-not-enforced:" + tag, "the worker of chunk %s, held back until %.1f s after "
                                "start, finished its search although the time-out was %s s (completion times %s)" % (
                                    c, d, to, {k_: round(v_, 2) for k_, v_ in obs["done"].items()}),
                                round(obs["done"][c], 2), "killed at about %s s" % to)
    # stalled machine? injected schedule vs. recorded completion (only meaningful for non-explosive kernels)
    if case["label"] == "ordinary":
        for c, d in zip(obs["chunks"], case["delays"]):
            if c in obs["done"] and abs(obs["done"][c] - d) > 0.25:
                return {"nontrivial": False, "classes": ["inconclusive-machine-stalled"],
                        "excluded": {"inconclusive-machine-stalled": 1}}
    cut = len(unfinished) > 0
    if obs["timed_out"] != cut:
        raise Violation("warning-mismatch:%s:%s" % (tag, case["placement"]),
                        "timed_out=%s but %d of %d chunks did not finish (placement %s, completion times %s)" % (
                            obs["timed_out"], len(unfinished), len(obs["chunks"]), case["placement"],
                            {k: round(v, 2) for k, v in obs["done"].items()}), obs["timed_out"], cut)
    if to == -1 and cut:
        raise Violation("incomplete-without-timeout:" + tag, "timeout -1 but chunks unfinished", unfinished, [])
    ref = untimed(case)
    if ref is not None:
        for k, v in obs["lcd"].items():
            if k not in ref["lcd"] or ref["lcd"][k] != v:
                raise Violation("partial-unsound:" + tag, "a dependency reported under timeout is not a dependency of "
                                "the untimed result (or differs in latency/members)", core.jsonable(v),
                                core.jsonable(ref["lcd"].get(k)))
        if not cut and obs["lcd"] != ref["lcd"]:
            raise Violation("complete-differs:" + tag, "search finished in time but the result differs from the "
                            "untimed one", sorted(obs["lcd"]), sorted(ref["lcd"]))
        if obs["tp"] != ref["tp"] or abs(obs["cp"] - ref["cp"]) > 1e-9:
            raise Violation("tp-cp-affected:" + tag, "port pressure totals / critical path differ from the untimed run",
                            [obs["tp"], obs["cp"]], [ref["tp"], ref["cp"]])
    else:
        # explosive kernel (untimed search does not finish): every reported dependency must at least be a chain of
        # the dependency graph with the reported per-edge latencies, and its latency their sum
        for k, (lat, members, root) in obs["lcd"].items():
            if abs(sum(l for _, l in members) - lat) > 1e-9:
                raise Violation("partial-latency:" + tag, "latency of a dependency reported under timeout is not the "
                                "sum of its edge latencies", lat, members)
            ms = sorted(members)
            for (a, la), (b, _) in zip(ms, ms[1:]):
                if (a, b) not in obs["edges"] or abs(obs["edges"][(a, b)] - la) > 1e-9:
                    raise Violation("partial-not-a-chain:" + tag, "members of a dependency reported under timeout are "
                                    "not linked by dependency edges with the reported latencies", [a, b, la],
                                    obs["edges"].get((a, b)))
    nt = (cut and len(obs["lcd"]) >= 1) or case["placement"] == "boundary"
    return {"nontrivial": nt, "classes": [case["label"], "timeout:%s" % to, "placement:" + case["placement"],
                                          "cut" if cut else "complete"],
            "key": [case["arch"], case["lines"], to, case["ncpu"], case["delays"]],
            "sample": {"kernel": case["label"], "lines": len(case["lines"]), "timeout": to, "ncpu": case["ncpu"],
                       "delays": case["delays"], "timed_out": obs["timed_out"], "wall": round(obs["wall"], 2),
                       "lcds_reported": len(obs["lcd"]), "chunks_unfinished": len(unfinished)}}


def check_cli(case):
    path = os.path.join(env.REPO, "tests", "test_files", "kernel_x86_long_LCD.s")
    t0 = time.time()
    rc, out, err = cli.run_subprocess(["--arch", case["arch"], "--lcd-timeout", str(case["timeout"])], path=path,
                                      timeout=600)
    wall = time.time() - t0
    if rc != 0 or err.strip():
        raise Violation("cli-fails:timeout=%s" % case["timeout"], "CLI run with --lcd-timeout fails", (err or out)[-500:],
                        None)
    if wall > case["timeout"] + 10 + 5:
        raise Violation("cli-overrun", "CLI returned %.1f s after start with --lcd-timeout %s" % (wall, case["timeout"]),
                        wall, case["timeout"] + 15)
    rep = report.parse(out)
    if not rep["warnings"]["lcd_timeout"]:
        raise Violation("cli-no-warning", "long-LCD kernel cut after %s s but no time-out warning in the report" %
                        case["timeout"], False, True)
    # untimed pressure / CP reference: --lcd-timeout 0 run of the same file (LCD part differs only)
    return {"nontrivial": len(rep["lcds"]) >= 1, "classes": ["cli-long-lcd", "timeout:%s" % case["timeout"]],
            "key": ["cli", case["arch"], case["timeout"]],
            "sample": {"cli": "kernel_x86_long_LCD.s", "timeout": case["timeout"], "wall": round(wall, 2),
                       "lcds_reported": len(rep["lcds"])}}


def scenario_list(tier, seed):
    out = []
    long_lcd = []
    with open(os.path.join(env.REPO, "tests", "test_files", "kernel_x86_long_LCD.s")) as fh:
        long_lcd = [l.rstrip("\n") for l in fh if l.strip() and "OSACA" not in l]

    def add(label, arch, lines, timeout, ncpu, placement, explosive=False):
        n = len(lines)
        k = len(sched.chunks(n, ncpu))
        if placement == "before":
            delays = [max(0.0, timeout - 0.6 - 0.05 * i) if timeout > 0 else 0.0 for i in range(k)]
        elif placement == "after":
            delays = [0.0] * (k - 1) + [timeout + 1.2]
        elif placement == "boundary":
            delays = [0.0] * (k - 1) + [timeout - 0.12]
        elif placement == "staggered":
            # workers finishing one after the other, each less than a time-out apart: 0.7 T, 1.6 T, 2.5 T, ...
            delays = [timeout * (0.7 + 0.9 * i) for i in range(k)]
        else:
            delays = [0.0] * k
        out.append({"kind": "sched", "label": label, "arch": arch, "lines": lines, "timeout": timeout, "ncpu": ncpu,
                    "delays": [round(d, 3) for d in delays], "placement": placement, "explosive": explosive})

    ordx, orda = ordinary_kernel("x86"), ordinary_kernel("aarch64")
    for to in (1, 2):
        for pl in ("before", "after", "boundary"):
            add("ordinary", "zen2", ordx, to, 3, pl)
            add("ordinary", "tx2", orda, to, 2, pl)
    add("ordinary", "zen2", ordx, 2, 3, "staggered")
    add("ordinary", "tx2", orda, 2, 3, "staggered")
    add("ordinary", "zen2", ordx, -1, 3, "none")
    add("ordinary", "zen2", ordx, 0, 3, "none")
    add("ordinary", "tx2", orda, 5, 5, "none")
    add("dense", "zen2", dense_kernel(14), -1, 4, "none")
    add("dense", "zen2", dense_kernel(14), 2, 4, "after")
    add("dense", "zen2", dense_kernel(14), 30, 4, "none")
    add("dense-explosive", "zen2", dense_kernel(40), 1, 8, "none", explosive=True)
    add("long-lcd", "zen2", long_lcd, 1, 16, "none", explosive=True)
    if tier == "thorough":
        for to in (1, 2, 3):
            for ncpu in (2, 5, 16):
                for pl in ("before", "after", "boundary"):
                    add("ordinary", "zen1", ordx, to, ncpu, pl)
                    if pl != "boundary":
                        add("dense", "zen2", dense_kernel(12), to if pl == "after" else 30, ncpu, pl if pl == "after" else "none")
        for nn in (30, 50, 70):
            add("dense-explosive", "zen2", dense_kernel(nn), 2, 16, "none", explosive=True)
        add("long-lcd", "zen2", long_lcd, 2, 16, "none", explosive=True)
        add("long-lcd", "zen2", long_lcd, 0, 16, "none", explosive=True)
    out.append({"kind": "pair", "label": "long-lcd", "arch": "zen2", "lines": long_lcd, "ncpu": 16, "timeouts": [0, 1],
                "slack": 4.0})
    out.append({"kind": "pair", "label": "dense-explosive", "arch": "zen2", "lines": dense_kernel(40), "ncpu": 8,
                "timeouts": [0, 2], "slack": 4.0})
    out.append({"kind": "ladder", "arch": "zen2", "timeout": 25})
    out.append({"kind": "cli", "arch": "zen2", "timeout": 1})
    if tier == "thorough":
        out.append({"kind": "cli", "arch": "zen2", "timeout": 2})
        out.append({"kind": "cli", "arch": "zen1", "timeout": 1})
    return out


def plan(tier, seed):
    sc = scenario_list(tier, seed)
    shards = [{"kind": "scenarios", "items": sc[i::4]} for i in range(4)]
    return shards


def run_shard(spec):
    stats = Stats()
    failures = {}
    for case in spec["items"]:
        try:
            info = check_case(case)
        except Violation as v:
            stats.evaluations += 1
            if v.bucket not in failures:
                failures[v.bucket] = failure_record(ID, case, v)
            continue
        stats.record(case, info)
    return {"stats": stats.to_dict(), "failures": list(failures.values())}


def replay(case):
    return check_case(case)


LEVEL_TEXT = ("Enumeration of fault/schedule classes the harness owns: for each kernel class x timeout, worker "
              "completion is placed clearly before, clearly after and just before the deadline; the kill point then "
              "falls where the schedule puts it, and result, warning, timing and process table are checked.")
LEVEL_NOTE = ("Trusted: wall-clock placement with >=0.5 s margins (a stalled machine makes a run inconclusive, never a "
              "violation); /proc for the process table; kill points inside a worker's list append are sampled only "
              "through the explosive kernels.")
TECHNIQUE = "fault injection with harness-owned worker schedules (delays, kill points) and a partial-result soundness oracle"
