"""C06 - store-to-load dependencies through provably equal addresses on both ISAs."""
import os

from hypothesis import strategies as st

from lib import core, env
from lib.core import Stats, Violation, guard, hyp_search

ID = "C06"
LEVEL = "exploration"
WARM = None
RULE = (
    "Hypothesis-generated kernels  [0-2 unrelated] store [second store] [0-3 middle] load [0-2 unrelated]  on every "
    "shipped model of the ISA (x86 stores: mov or read-modify-write addq $imm / incq / subq reg): address shapes base / base+disp / base+index*scale(+disp); displacement pairs equal, "
    "different and equal-after-bump; middle instructions from the bump vocabulary (x86 add/sub $imm, inc, dec, "
    "mov copy; AArch64 add/sub #imm in place and to a new register, mov, pre-/post-indexed accesses through the "
    "base) applied to base, index or an unrelated register; pre-/post-indexed stores and loads on AArch64; a second "
    "store to the identical or another operand. Oracle: symbolic addresses reg -> (root, const): edge store->load "
    "present iff the addresses are equal and no intervening store to the identical operand; weight = store latency "
    "+ store_to_load_forward_latency of the model file. Non-trivial: the load's displacement differs textually from "
    "the store's but is equal after >=1 bump, or a terminating second store, or a register copy. Distinct = "
    "distinct (model, kernel text)."
)
ASSUMPTIONS = [
    "loads write a register that is not part of any address; only bump-vocabulary instructions write address registers",
    "a store with write-back is also linked to the load by the base-register update: either weight is accepted then, "
    "and only the plain register weight when the addresses differ",
    "the store's own latency is read from the analysed instruction; the forwarding latency from the model file",
]
MIN_NONTRIVIAL = {"quick": 300, "thorough": 3000}

X_BASES = ["rax", "rbx", "rsi"]
X_IDX = ["rdi", "r8", "r9"]
A_BASES = ["2", "4", "5"]
A_IDX = ["9", "10"]


# ------------------------------------------------------------------ generation
@st.composite
def addr(draw, isa, bases, idxs, allow_wb):
    shape = draw(st.sampled_from(["b", "bd", "bd", "bis", "bisd"] if isa == "x86" else ["b", "bd", "bd", "bis"]))
    a = {"base": draw(st.sampled_from(bases)), "index": None, "scale": 1, "disp": 0, "mode": "plain", "wb": 0}
    if "d" in shape:
        a["disp"] = draw(st.sampled_from([8, 16, 24, -8, 32, 0, 64]))
    if "i" in shape:
        a["index"] = draw(st.sampled_from(idxs))
        a["scale"] = draw(st.sampled_from([1, 2, 4, 8]))
    if isa == "aarch64" and allow_wb and a["index"] is None and draw(st.integers(0, 3)) == 0:
        a["mode"] = draw(st.sampled_from(["pre", "post"]))
        a["wb"] = draw(st.sampled_from([8, 16, -8]))
        if a["mode"] == "pre":
            a["disp"] = a["wb"]
        else:
            a["disp"] = 0
    return a


def render_addr(isa, a):
    if isa == "x86":
        s = str(a["disp"]) if a["disp"] else ""
        s += "(%" + a["base"]
        if a["index"]:
            s += ",%" + a["index"] + ",%d" % a["scale"]
        return s + ")"
    b = "x" + a["base"]
    if a["mode"] == "pre":
        return "[%s, #%d]!" % (b, a["wb"])
    if a["mode"] == "post":
        return "[%s], #%d" % (b, a["wb"])
    if a["index"]:
        sh = {1: 0, 2: 1, 4: 2, 8: 3}[a["scale"]]
        return "[%s, x%s%s]" % (b, a["index"], ", lsl #%d" % sh if sh else "")
    return "[%s, #%d]" % (b, a["disp"]) if a["disp"] else "[%s]" % b


@st.composite
def cases(draw, isa, archs):
    arch = draw(st.sampled_from(archs))
    bases, idxs = (X_BASES, X_IDX) if isa == "x86" else (A_BASES, A_IDX)
    store = draw(addr(isa, bases, idxs, True))
    lines = []
    # unrelated lines include the bump/copy mnemonics on other register classes (no address register involved)
    unrelated = (["vaddpd %xmm1, %xmm2, %xmm3", "addq $1, %r12", "vmulpd %xmm4, %xmm5, %xmm6", "movq %xmm4, %r10",
                  "movq %r10, %xmm7", "addl $1, %r15d", "decl %r15d"] if isa == "x86"
                 else ["fadd d1, d2, d3", "add x12, x12, #1", "fmul d4, d5, d6", "add w15, w15, #1",
                       "sub w16, w16, #4", "mov v4.16b, v5.16b", "mov w16, w17", "add v1.2d, v2.2d, v3.2d"])
    for _ in range(draw(st.integers(0, 1))):
        lines.append({"k": "nop", "text": draw(st.sampled_from(unrelated[3:]))})
    for _ in range(draw(st.integers(0, 2))):
        lines.append({"k": "nop", "text": draw(st.sampled_from(unrelated))})
    # x86: the store is a plain mov or a read-modify-write instruction (addq $1 / incq / subq %rcx: flag destinations
    # precede the memory operand in the instruction's semantic destinations)
    st_kind = draw(st.sampled_from(["mov", "mov", "addimm", "inc", "subreg"])) if isa == "x86" else "str"
    st_text = {"mov": "movq %rcx, ", "addimm": "addq $1, ", "inc": "incq ", "subreg": "subq %rcx, ",
               "str": "str x1, "}[st_kind]
    lines.append(dict(store, k="store", text=st_text + render_addr(isa, store), st_kind=st_kind))
    # optional second store directly after the first (no address register changes in between)
    sel = draw(st.integers(0, 5))
    if sel == 0 and store["mode"] == "plain":
        # (x86: the later store to the identical operand may itself be a read-modify-write instruction)
        k2 = draw(st.sampled_from(["mov", "addimm", "inc"])) if isa == "x86" else "str"
        t2 = {"mov": "movq %r11, ", "addimm": "addq $1, ", "inc": "incq ", "str": "str x11, "}[k2]
        lines.append(dict(store, k="store", text=t2 + render_addr(isa, store), st_kind=k2))
    elif sel == 1:
        if isa == "aarch64" and store["index"]:
            # register-indexed AArch64 operands have no displacement: another base makes it another operand
            other = dict(store, base=[b for b in bases if b != store["base"]][0])
        else:
            other = dict(store, disp=store["disp"] + 128, mode="plain", wb=0)
        lines.append(dict(other, k="store", text=("movq %r11, " if isa == "x86" else "str x11, ") +
                          render_addr(isa, other)))
    # middle instructions
    copies = {}
    for _ in range(draw(st.integers(0, 3))):
        kind = draw(st.sampled_from(["bump", "bump", "bump", "copy", "nop", "wbaccess", "bumpnew"]))
        reg = draw(st.sampled_from(bases + idxs + (["r12"] if isa == "x86" else ["12"])))
        delta = draw(st.sampled_from([8, 16, -8, 4, 1, 24]))
        if kind == "bump":
            if isa == "x86":
                form = draw(st.sampled_from(["add", "sub", "inc", "dec"]))
                if form == "add":
                    lines.append({"k": "bump", "reg": reg, "delta": delta, "text": "addq $%d, %%%s" % (delta, reg)})
                elif form == "sub":
                    lines.append({"k": "bump", "reg": reg, "delta": -delta, "text": "subq $%d, %%%s" % (delta, reg)})
                elif form == "inc":
                    lines.append({"k": "bump", "reg": reg, "delta": 1, "text": "incq %%%s" % reg})
                else:
                    lines.append({"k": "bump", "reg": reg, "delta": -1, "text": "decq %%%s" % reg})
            else:
                if draw(st.booleans()):
                    lines.append({"k": "bump", "reg": reg, "delta": delta,
                                  "text": "add x%s, x%s, #%d" % (reg, reg, delta)})
                else:
                    lines.append({"k": "bump", "reg": reg, "delta": -abs(delta),
                                  "text": "sub x%s, x%s, #%d" % (reg, reg, abs(delta))})
        elif kind in ("copy", "bumpnew"):
            dst = draw(st.sampled_from(["r13", "r14"] if isa == "x86" else ["13", "14"]))
            d = 0 if (kind == "copy" or isa == "x86") else delta
            if isa == "x86":
                text = "movq %%%s, %%%s" % (reg, dst)
            elif d:
                text = "add x%s, x%s, #%d" % (dst, reg, d)
            else:
                text = "mov x%s, x%s" % (dst, reg)
            lines.append({"k": "copy", "dst": dst, "src": reg, "delta": d, "text": text})
            copies[dst] = reg
        elif kind == "wbaccess" and isa == "aarch64":
            b = draw(st.sampled_from(bases))
            mode = draw(st.sampled_from(["pre", "post"]))
            v = draw(st.sampled_from([8, 16, -8]))
            a = {"base": b, "index": None, "scale": 1, "disp": v if mode == "pre" else 0, "mode": mode, "wb": v}
            lines.append(dict(a, k="wbload", text="ldr x7, " + render_addr(isa, a)))
        else:
            lines.append({"k": "nop", "text": draw(st.sampled_from(unrelated))})
    # the load: address chosen to be equal / unequal / equal-after-bump on purpose
    lb = [store["base"]] * 4 + bases + [d for d, s in copies.items()]
    load = draw(addr(isa, lb, idxs if store["index"] is None else [store["index"]] * 3 + idxs, True))
    if draw(st.integers(0, 3)) > 0:
        # same shape as the store, then displacement adjusted to hit / miss by construction
        load["index"], load["scale"] = store["index"], store["scale"]
        if draw(st.integers(0, 4)) == 0 and load["index"]:
            load["scale"] = draw(st.sampled_from([1, 2, 4, 8]))
        if load["index"]:
            load["mode"], load["wb"] = "plain", 0
            if isa == "aarch64":
                load["disp"] = 0  # register-indexed AArch64 operands carry no displacement
        want_equal = draw(st.integers(0, 2)) > 0
        tmp = lines + [dict(load, k="load")]
        sidx = [i for i, l in enumerate(tmp) if l["k"] == "store"][0]
        exp = symbolic(isa, tmp, sidx, len(tmp) - 1)
        if exp is not None and load["mode"] in ("plain",) and (isa == "x86" or not load["index"]):
            # exp = (roots equal?, const difference load - store)
            same_roots, diff = exp
            if same_roots:
                load["disp"] = load["disp"] - diff + (0 if want_equal else draw(st.sampled_from([8, -8, 4])))
    lines.append(dict(load, k="load", text=("movq %s, %%rdx" if isa == "x86" else "ldr x3, %s") % render_addr(isa, load)))
    if load["mode"] == "plain" and draw(st.integers(0, 2)) == 0:
        # a second (and third) load of the same address right behind the first: same dependency, same weight
        for r_ in (["%r15", "%rbp"] if isa == "x86" else ["x15", "x16"])[:draw(st.integers(1, 2))]:
            a_ = render_addr(isa, load)
            lines.append(dict(load, k="load2", text=("movq " + a_ + ", " + r_) if isa == "x86" else
                              ("ldr " + r_ + ", " + a_)))
    for _ in range(draw(st.integers(0, 2))):
        lines.append({"k": "nop", "text": draw(st.sampled_from(unrelated))})
    return {"isa": isa, "arch": arch, "lines": lines, "first_line": draw(st.sampled_from([0, 0, 7]))}


# ------------------------------------------------------------------ reference
def _eff(isa, state, a):
    """symbolic effective address of access a in `state`: (base root, index root|None, scale, const)"""
    rb, cb = state.get(a["base"], (a["base"], 0))
    const = cb + (a["disp"] if a["mode"] != "post" else 0)
    ri = None
    if a["index"]:
        ri, ci = state.get(a["index"], (a["index"], 0))
        const += ci * a["scale"]
    return (rb, ri, a["scale"] if a["index"] else 1, const)


def _apply(isa, state, l):
    k = l["k"]
    if k in ("store", "load", "wbload"):
        if l.get("mode") in ("pre", "post"):
            r, c = state.get(l["base"], (l["base"], 0))
            state[l["base"]] = (r, c + l["wb"])
    elif k == "bump":
        r, c = state.get(l["reg"], (l["reg"], 0))
        state[l["reg"]] = (r, c + l["delta"])
    elif k == "copy":
        r, c = state.get(l["src"], (l["src"], 0))
        state[l["dst"]] = (r, c + l["delta"])


def symbolic(isa, lines, sidx, lidx):
    """(roots_equal, const(load) - const(store)) for store at sidx and load at lidx"""
    state = {}
    sa = _eff(isa, state, lines[sidx])
    for i in range(sidx, lidx):
        _apply(isa, state, lines[i])
    la = _eff(isa, state, lines[lidx])
    same = (sa[0] == la[0] and sa[1] == la[1] and sa[2] == la[2])
    return same, la[3] - sa[3]


def expected_edges(case):
    """{store line index: bool expected} for the load line"""
    isa, lines = case["isa"], case["lines"]
    lidx = [i for i, l in enumerate(lines) if l["k"] == "load"][0]
    out = {}
    for sidx, l in enumerate(lines):
        if l["k"] != "store" or sidx > lidx:
            continue
        same, diff = symbolic(isa, lines, sidx, lidx)
        eq = same and diff == 0
        # a later store to the identical operand ends the search
        blocked = any(lines[j]["k"] == "store" and
                      all(lines[j][f] == l[f] for f in ("base", "index", "scale", "disp", "mode", "wb"))
                      for j in range(sidx + 1, lidx))
        out[sidx] = eq and not blocked
    return out, lidx


# ------------------------------------------------------------------ evaluation
_M = {}
_STLF = {}


def model(arch):
    from osaca.semantics import ArchSemantics, MachineModel

    if arch not in _M:
        if len(_M) > 3:
            _M.clear()
        mm = guard(MachineModel, arch=arch, what="MachineModel")
        _M[arch] = (mm, guard(ArchSemantics, mm, what="ArchSemantics"))
    return _M[arch]


def stlf_of(arch):
    if arch not in _STLF:
        import re
        v = 0.0
        with open(os.path.join(env.REPO, "osaca", "data", arch + ".yml")) as fh:
            for line in fh:
                m = re.match(r"^store_to_load_forward_latency:\s*([0-9.]+)", line)
                if m:
                    v = float(m.group(1))
                    break
                if line.startswith("instruction_forms:"):
                    break
        _STLF[arch] = v
        m2 = None
        with open(os.path.join(env.REPO, "osaca", "data", arch + ".yml")) as fh:
            for line in fh:
                m2 = re.match(r"^p_index_latency:\s*([0-9.]+)", line)
                if m2:
                    break
                if line.startswith("instruction_forms:"):
                    break
        _STLF[arch + ":pidx"] = float(m2.group(1)) if m2 else 1.0
    return _STLF[arch], _STLF[arch + ":pidx"]


def check_case(case):
    from osaca.parser import ParserAArch64, ParserX86ATT
    from osaca.semantics import KernelDG

    isa, arch = case["isa"], case["arch"]
    mm, sem = model(arch)
    parser = ParserX86ATT() if isa == "x86" else ParserAArch64()
    fl = case.get("first_line", 0)
    text = "\n" * fl + "\n".join(l["text"] for l in case["lines"]) + "\n"
    kernel = guard(parser.parse_file, text, what="parse_file")
    guard(sem.add_semantics, kernel, what="add_semantics")
    dg = guard(KernelDG, kernel, parser, mm, sem, timeout=-1, what="KernelDG")
    exp, lidx = expected_edges(case)
    stlf, pidx = stlf_of(arch)
    got = {(int(a) - fl - 1, int(b) - fl - 1): d["latency"] for a, b, d in dg.dg.edges(data=True) if a == int(a)}
    cl = [isa, arch]
    nt = False
    for sidx, want in exp.items():
        st_ = case["lines"][sidx]
        ld = case["lines"][lidx]
        iform = kernel[sidx]
        wb_store = st_["mode"] in ("pre", "post")
        # does the load (or its address) read the store's written-back base?  then a register edge exists anyway
        reg_edge = wb_store and (ld["base"] == st_["base"]) and not any(
            l["k"] in ("bump", "wbload") and l.get("reg", l.get("base")) == st_["base"]
            or (l["k"] == "copy" and l["dst"] == st_["base"])
            for l in case["lines"][sidx + 1:lidx])
        w_mem = float(iform.latency_wo_load if iform.latency_wo_load is not None else iform.latency) + stlf
        kinds = sorted({l["k"] for l in case["lines"][sidx + 1:lidx]} - {"nop"})
        tag = "%s:%s:%s" % (isa, st_["mode"] + ("+idx" if st_["index"] else "") +
                            (":rmw" if st_.get("st_kind") in ("addimm", "inc", "subreg") else ""),
                            "+".join(kinds) or "direct")
        has = (sidx, lidx) in got
        if wb_store and ld["base"] == st_["base"] and not reg_edge:
            # base re-written in between: whether the register edge survives is C03's business
            pass
        if want:
            if not has:
                raise Violation("missed:" + tag, "load from the location just stored to does not depend on the "
                                "store (%s ... %s)" % (st_["text"], ld["text"]), sorted(got), [sidx, lidx])
            ok_w = [w_mem] + ([pidx] if wb_store else [])
            if not any(abs(got[(sidx, lidx)] - w) < 1e-9 for w in ok_w):
                raise Violation("weight:" + tag, "store->load edge weight is not store latency + forwarding "
                                "latency", got[(sidx, lidx)], ok_w)
        else:
            if has and not wb_store:
                raise Violation("spurious:" + tag, "load depends on a store to a different location "
                                "(%s ... %s)" % (st_["text"], ld["text"]), [sidx, lidx], None)
            if has and wb_store and abs(got[(sidx, lidx)] - pidx) > 1e-9 and abs(w_mem - pidx) > 1e-9:
                raise Violation("spurious:" + tag, "store->load forwarding edge between different locations",
                                got[(sidx, lidx)], pidx)
        # further loads of the same address directly behind the load: same edge, same weight
        for l2 in range(lidx + 1, len(case["lines"])):
            if case["lines"][l2]["k"] != "load2":
                break
            has2 = (sidx, l2) in got
            if want and not has2:
                raise Violation("missed:" + tag + ":load%d" % (l2 - lidx + 1), "a further load of the location just "
                                "stored to does not depend on the store (%s ... %s)" % (
                                    st_["text"], case["lines"][l2]["text"]), sorted(got), [sidx, l2])
            if not want and has2 and not wb_store:
                raise Violation("spurious:" + tag + ":load%d" % (l2 - lidx + 1), "a further load depends on a store "
                                "to a different location", [sidx, l2], None)
            if want and has2 and abs(got[(sidx, l2)] - got[(sidx, lidx)]) > 1e-9:
                raise Violation("weight:" + tag + ":load%d" % (l2 - lidx + 1), "store->load edge weight differs "
                                "between two loads of the same location", got[(sidx, l2)], got[(sidx, lidx)])
            cl.append("several-loads")
        same, diff = symbolic(isa, case["lines"], sidx, lidx)
        if want and (st_["disp"] != ld["disp"] or "copy" in kinds):
            nt = True
            cl.append("equal-after-bump-or-copy")
        if not want and same and diff == 0:
            nt = True
            cl.append("terminating-second-store")
        cl.append("expect-edge" if want else "expect-no-edge")
        cl.append("shape:" + st_["mode"] + ("+idx" if st_["index"] else ""))
        if st_.get("st_kind") in ("addimm", "inc", "subreg"):
            cl.append("store:read-modify-write")
        for k in kinds:
            cl.append("mid:" + k)
    return {"nontrivial": nt, "classes": sorted(set(cl)), "key": [arch, [l["text"] for l in case["lines"]]],
            "sample": {"arch": arch, "kernel": [l["text"] for l in case["lines"]],
                       "expected_store_to_load": {str(k): v for k, v in exp.items()}}}


def plan(tier, seed):
    n = {"quick": 300, "thorough": 8000}[tier]
    shards = []
    for i in range(16):
        isa = "x86" if i % 2 == 0 else "aarch64"
        archs = env.X86_ARCHS if isa == "x86" else env.A64_ARCHS
        # each shard works on two models (model unpickling dominates otherwise)
        j = i // 2
        shards.append({"isa": isa, "archs": [archs[(2 * j) % len(archs)], archs[(2 * j + 1) % len(archs)]],
                       "seed": seed * 1000 + 600 + i, "n": n})
    return shards


def run_shard(spec):
    stats = Stats()
    failures = hyp_search(ID, cases(spec["isa"], spec["archs"]), check_case, stats, seed=spec["seed"],
                          max_examples=spec["n"])
    return {"stats": stats.to_dict(), "failures": failures}


def replay(case):
    return check_case(case)


LEVEL_TEXT = ("Randomised differential testing of store-to-load edges against a symbolic address tracker "
              "(reg -> root + constant) on generated store/bump/load kernels, both ISAs, every shipped model.")
LEVEL_NOTE = ("Trusted: the symbolic reference in checks/c06.py; the generated vocabulary only contains instructions "
              "whose effect on address registers is architecturally a constant bump or a copy.")
TECHNIQUE = "property-based differential testing against a symbolic address-equality reference"
