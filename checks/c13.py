"""C13 - text report, machine-readable output and totals agree."""
import re

from hypothesis import strategies as st

from lib import cli, core, corpus, env, report
from lib.core import Stats, Violation, guard, hyp_search

ID = "C13"
LEVEL = "exploration"
WARM = None
RULE = (
    "Hypothesis-generated runs of the CLI entry point (osaca.osaca.run with --yaml-out): kernel = a shipped "
    "example/test kernel or a generated selection/repetition of its instruction lines (repetition pushes port sums "
    ">=10 and >=100 and files beyond 100 lines), optionally with unknown mnemonics inserted, with or without byte "
    "markers around it x every shipped model of the ISA or no --arch x {--fixed, optimal} x {--ignore-unknown or "
    "not} x {marked, unmarked, --lines}. Oracle: the text report is parsed by column positions derived from its own "
    "header line and compared cell by cell with the YAML output (pressure at the shown precision, blank <=> 0 on a "
    "port no micro-op uses, CP/LCD cells, summary row, X marks, missing-data warning and absence of totals, arch and "
    "large-kernel warnings) and the LCD list with the loop-carried dependencies of the same analysis. Non-trivial: "
    "report with >=1 LCD and a CP of >=2 lines on a model with a grouped port column, or an unknown instruction, or "
    "a value >=10. Distinct = distinct (kernel text, options)."
)
ASSUMPTIONS = [
    "the loop-carried dependencies of the analysis are observed by recording the KernelDG object the CLI creates "
    "(harness-side subclass, no change to the repository)",
]
MIN_NONTRIVIAL = {"quick": 100, "thorough": 600}

MARK = {
    "x86": ("movl $111, %ebx\n.byte 100,103,144\n", "movl $222, %ebx\n.byte 100,103,144\n"),
    "aarch64": ("mov x1, #111\n.byte 213,3,32,31\n", "mov x1, #222\n.byte 213,3,32,31\n"),
}


_PARTIAL = {}


def partial_entries(arch):
    """instructions (as text) whose model entry lacks throughput but has a latency, or vice versa: flagged with one of
    tp_unknown / lt_unknown only"""
    if arch not in _PARTIAL:
        from lib import entries
        from osaca.parser import ParserAArch64, ParserX86ATT
        from osaca.semantics import MachineModel
        out = []
        try:
            mm = MachineModel(arch=arch)
            isa = mm.get_ISA()
            parser = ParserX86ATT() if isa == "x86" else ParserAArch64()
            for name, fs in mm._data["instruction_forms_dict"].items():
                for f in fs:
                    if (f.throughput is None) != (f.latency is None):
                        try:
                            t = entries.entry_text(isa, name, f.operands, 0)
                            if parser.parse_line(t, 1).mnemonic is not None:
                                out.append(t)
                        except Exception:
                            pass
        except Exception:
            pass
        _PARTIAL[arch] = out[:40]
    return _PARTIAL[arch]


@st.composite
def cases(draw, isa, archs, kernels):
    name, _, lines = draw(st.sampled_from(kernels))
    instr = [l for l in lines]
    mode = draw(st.sampled_from(["whole", "whole", "select", "select", "repeat", "heavy"]))
    if mode == "select":
        n = draw(st.integers(1, min(12, len(instr))))
        start = draw(st.integers(0, len(instr) - n))
        body = instr[start:start + n]
    elif mode == "repeat":
        k = draw(st.sampled_from([2, 3, 6, 12]))
        body = (instr * k)[:draw(st.sampled_from([40, 99, 101, 130]))]
    elif mode == "heavy":
        # one instruction repeated some hundred times: port totals beyond 100 cycles in a narrow column
        # vector / load / store instructions only: flag-writing integer instructions make OSACA's own dependency
        # scan quadratic (every flag destination is followed through the whole kernel), a minute per case
        cands = [l for l in instr if l.strip().startswith(("v",) if isa == "x86" else ("f", "ld", "st"))]
        if cands:
            # a few lines of a second instruction make the totals non-integral (211.25, 100.67 ...)
            body = [draw(st.sampled_from(cands))] * draw(st.sampled_from([210, 260, 302])) + \
                [draw(st.sampled_from(cands))] * draw(st.integers(0, 7))
        else:
            body = list(instr)
    else:
        body = list(instr)
    # unknown mnemonics / zero-pressure lines
    for _ in range(draw(st.sampled_from([0, 0, 1, 2]))):
        pos = draw(st.integers(0, len(body)))
        body.insert(pos, "foobar %rax, %rbx" if isa == "x86" else "foobar x1, x2")
    if draw(st.integers(0, 4)) == 0:
        body.insert(draw(st.integers(0, len(body))), "# just a comment" if isa == "x86" else "// just a comment")
    select = draw(st.sampled_from(["marked", "unmarked", "unmarked", "lines"]))
    arch = draw(st.sampled_from(list(archs) + [None]))
    # an instruction whose entry has only part of the data (throughput missing, latency known, or the reverse)
    if arch is not None and mode != "heavy" and draw(st.integers(0, 2)) == 0:
        pe = partial_entries(arch)
        if pe:
            body.insert(draw(st.integers(0, len(body))), draw(st.sampled_from(pe)))
    return {"isa": isa, "kernel": name, "body": body, "select": select, "arch": arch,
            "fixed": draw(st.booleans()), "ignore_unknown": draw(st.booleans()),
            "flagdeps": draw(st.integers(0, 4)) == 0}


def build_file(case):
    isa = case["isa"]
    body = "\n".join(case["body"]) + "\n"
    argv = []
    if case["select"] == "marked":
        pro = "xorl %eax, %eax\n" if isa == "x86" else "mov x9, x9\n"
        code = pro + MARK[isa][0] + body + MARK[isa][1] + pro
    elif case["select"] == "lines":
        pro = ("xorl %eax, %eax\n" if isa == "x86" else "mov x9, x9\n") * 2
        code = pro + body + pro
        argv += ["--lines", "3-%d" % (2 + len(case["body"]))]
    else:
        code = body
    if case["arch"]:
        argv += ["--arch", case["arch"]]
    if case["fixed"]:
        argv.append("--fixed")
    if case["ignore_unknown"]:
        argv.append("--ignore-unknown")
    if case["flagdeps"]:
        argv.append("--consider-flag-deps")
    argv += ["--lcd-timeout", "3"]
    return argv, code


def shown_equal(cell, value):
    """cell text equals value at the precision shown"""
    if "." in cell:
        dec = len(cell.split(".")[1])
    else:
        dec = 0
    try:
        return abs(float(cell) - float(value)) <= 0.5 * 10 ** (-dec) + 1e-9
    except ValueError:
        return False


def check_case(case):
    isa = case["isa"]
    argv, code = build_file(case)
    rec = cli.Recorder().install()
    try:
        out, yd, path = guard(cli.run_inprocess, argv, code, want_yaml=True, what="osaca " + " ".join(argv))
    finally:
        rec.remove()
    try:
        rep = report.parse(out)
    except report.ReportError as e:
        raise Violation("report-format", "text report cannot be parsed back: %s" % e, out[-600:], None)
    tag = "%s:%s" % (isa, "fixed" if case["fixed"] else "opt")
    ports = yd["Target"]["Ports"]
    if rep["ports"] != [str(p) for p in ports]:
        raise Violation("ports:" + tag, "port columns differ from Target.Ports", rep["ports"], ports)
    klines = yd["Kernel"]
    if len(klines) != len(rep["lines"]):
        raise Violation("line-count:" + tag, "report shows a different number of lines than the YAML kernel",
                        len(rep["lines"]), len(klines))
    n_unknown = 0
    big = False
    for rl, yl in zip(rep["lines"], klines):
        if rl["lineno"] != yl["LineNumber"]:
            raise Violation("lineno:" + tag, "line numbers differ", rl["lineno"], yl["LineNumber"])
        used = set()
        for u in yl["PortUops"]:
            used |= set(str(p) for p in u["Ports"])
        for p, cell in zip(ports, rl["cells"]):
            v = yl["PortPressure"][p]
            if cell == "":
                if v != 0.0 or str(p) in used:
                    raise Violation("cell-blank:" + tag, "blank pressure cell for port %s on line %d but value %r / "
                                    "port used: %s" % (p, rl["lineno"], v, str(p) in used), rl["raw"], v)
            else:
                if not shown_equal(cell, v):
                    raise Violation("cell-value:" + tag, "pressure cell for port %s on line %d" % (p, rl["lineno"]),
                                    cell, v)
                if float(cell) >= 10:
                    big = True
        if rl["cp"] == "":
            if float(yl["LatencyCP"]) != 0.0:
                raise Violation("cp-cell:" + tag, "CP cell blank but LatencyCP=%r on line %d" % (
                    yl["LatencyCP"], rl["lineno"]), rl["raw"], yl["LatencyCP"])
        elif not shown_equal(rl["cp"], yl["LatencyCP"]):
            raise Violation("cp-cell:" + tag, "CP cell on line %d" % rl["lineno"], rl["cp"], yl["LatencyCP"])
        if rl["lcd"] == "":
            if float(yl["LatencyLCD"]) != 0.0:
                raise Violation("lcd-cell:" + tag, "LCD cell blank but LatencyLCD=%r" % yl["LatencyLCD"], rl["raw"],
                                yl["LatencyLCD"])
        elif not shown_equal(rl["lcd"], yl["LatencyLCD"]):
            raise Violation("lcd-cell:" + tag, "LCD cell on line %d differs from LatencyLCD" % rl["lineno"],
                            rl["lcd"], yl["LatencyLCD"])
        unk = "tp_unknown" in yl["Flags"]
        n_unknown += unk
        if ("X" in rl["flags"]) != unk:
            raise Violation("x-mark:" + tag, "X mark on line %d does not match tp_unknown" % rl["lineno"],
                            rl["flags"], unk)
    # summary / missing-data warning
    if n_unknown and not case["ignore_unknown"]:
        if rep["warnings"]["missing"] != n_unknown:
            raise Violation("missing-warning:" + tag, "missing-data warning does not state the number of "
                            "instructions without data", rep["warnings"]["missing"], n_unknown)
        if rep["summary"] is not None:
            raise Violation("summary-despite-unknown:" + tag, "summary totals printed although data is missing and "
                            "--ignore-unknown was not given", rep["summary"]["raw"], None)
    else:
        if rep["warnings"]["missing"] is not None:
            raise Violation("missing-warning:" + tag, "missing-data warning without reason", rep["warnings"]["missing"],
                            None)
        if rep["summary"] is None:
            raise Violation("summary-missing:" + tag, "no summary row", out[-500:], None)
        for p, cell in zip(ports, rep["summary"]["cells"]):
            v = yd["Summary"]["PortPressure"][p]
            if cell == "":
                if v != 0.0:
                    raise Violation("summary-cell:" + tag, "blank total for port %s" % p, "", v)
            else:
                if not shown_equal(cell, v):
                    raise Violation("summary-cell:" + tag, "total for port %s" % p, cell, v)
                if float(cell) >= 10:
                    big = True
        if not shown_equal(rep["summary"]["cp"], yd["Summary"]["CriticalPath"]):
            raise Violation("summary-cp:" + tag, "CP total", rep["summary"]["cp"], yd["Summary"]["CriticalPath"])
        if not shown_equal(rep["summary"]["lcd"], yd["Summary"]["LCD"]):
            raise Violation("summary-lcd:" + tag, "LCD total", rep["summary"]["lcd"], yd["Summary"]["LCD"])
        cp_sum = sum(float(l["cp"]) for l in rep["lines"] if l["cp"] != "")
        if abs(cp_sum - float(yd["Summary"]["CriticalPath"])) > 0.051 * max(1, len(rep["lines"])):
            raise Violation("cp-sum:" + tag, "CP cells do not add up to the CP total", cp_sum,
                            yd["Summary"]["CriticalPath"])
    # LCD list vs the analysis' loop-carried dependencies
    dg = rec.graphs[-1]
    lcd = dg.get_loopcarried_dependencies()
    # CP column marks exactly the critical-path lines; LCD column exactly the members of one maximal cycle
    cp_lines = {x.line_number: float(x.latency_cp) for x in dg.get_critical_path()}
    cp_marked = {l["lineno"]: float(l["cp"]) for l in rep["lines"] if l["cp"] != ""}
    if set(cp_marked) != set(cp_lines):
        raise Violation("cp-marks:" + tag, "CP column does not mark exactly the lines of the critical path",
                        sorted(cp_marked), sorted(cp_lines))
    lcd_marked = {l["lineno"] for l in rep["lines"] if l["lcd"] != ""}
    if lcd:
        mx = max(float(v["latency"]) for v in lcd.values())
        cands = [{n.line_number for n, _ in v["dependencies"]} for v in lcd.values() if float(v["latency"]) == mx]
        if lcd_marked not in cands:
            raise Violation("lcd-marks:" + tag, "LCD column does not mark exactly the members of one longest "
                            "loop-carried dependency", sorted(lcd_marked), [sorted(c) for c in cands])
    elif lcd_marked:
        raise Violation("lcd-marks:" + tag, "LCD column marks lines although there is no loop-carried dependency",
                        sorted(lcd_marked), [])
    exp_list = sorted((round(float(v["latency"]), 1), sorted(n.line_number for n, _ in v["dependencies"]))
                      for v in lcd.values())
    got_list = sorted((round(l["latency"], 1), sorted(l["lines"])) for l in rep["lcds"])
    if exp_list != got_list:
        raise Violation("lcd-list:" + tag, "LCD list does not show every loop-carried dependency with its latency "
                        "and member lines", got_list, exp_list)
    exp_max = max([float(v["latency"]) for v in lcd.values()] or [0.0])
    if abs(float(yd["Summary"]["LCD"]) - exp_max) > 1e-9:
        raise Violation("lcd-max:" + tag, "Summary.LCD is not the maximum loop-carried latency",
                        yd["Summary"]["LCD"], exp_max)
    # warnings
    if rep["warnings"]["lcd_timeout"] != bool(dg.timed_out) or ("LCDWarning" in yd["Warnings"]) != bool(dg.timed_out):
        raise Violation("lcd-timeout-warning:" + tag, "LCD time-out warning does not match the analysis",
                        [rep["warnings"]["lcd_timeout"], yd["Warnings"]], bool(dg.timed_out))
    want_arch_warn = case["arch"] is None
    if rep["warnings"]["arch"] != want_arch_warn or ("ArchWarning" in yd["Warnings"]) != want_arch_warn:
        raise Violation("arch-warning:" + tag, "no-micro-architecture warning", [rep["warnings"]["arch"],
                        yd["Warnings"]], want_arch_warn)
    if case["arch"] is None:
        # the ISA is detected from register names: asserted only when the file's register names are unambiguous
        # (x86 vector registers and no AArch64-looking token, or AArch64 w/x registers and no '%')
        x86_vec = len(re.findall(r"%[xyz]mm[0-9]", code))
        a64_tok = len(re.findall(r"[vz][0-9][0-9]?\.[0-9][0-9]?[bhsd]", code)) + len(re.findall(r"[wx][0-9]", code))
        want = None
        if isa == "x86" and x86_vec > 0 and a64_tok == 0:
            want = "SPR"
        elif isa == "aarch64" and a64_tok > 0 and "%" not in code:
            want = "V2"
        got_arch = rep["header"].get("Architecture")
        if got_arch not in ("SPR", "V2") or (want is not None and got_arch != want):
            raise Violation("default-arch:" + tag, "default model of the detected ISA", got_arch, want or "SPR|V2")
    n_parsed = len([l for l in code.split("\n") if l.strip()])
    want_len = case["select"] == "unmarked" and n_parsed > 100
    if rep["warnings"]["length"] != want_len or ("LengthWarning" in yd["Warnings"]) != want_len:
        raise Violation("length-warning:" + tag, "large-kernel warning (%d parsed lines, selection %s)" % (
            n_parsed, case["select"]), [rep["warnings"]["length"], yd["Warnings"]], want_len)
    grouped = any(re.match(r"^\d+[A-Z]+$", str(p)) for p in ports)
    ncp = sum(1 for l in rep["lines"] if l["cp"] != "")
    nt = (bool(lcd) and ncp >= 2 and grouped) or n_unknown > 0 or big
    cl = [isa, "arch:" + str(case["arch"]), "select:" + case["select"], "fixed" if case["fixed"] else "optimal"]
    if n_unknown:
        cl.append("unknown-instruction" + ("+ignore" if case["ignore_unknown"] else ""))
    if any(("tp_unknown" in y["Flags"]) != ("lt_unknown" in y["Flags"]) for y in klines):
        cl.append("partially-known-instruction")
    if big:
        cl.append("value>=10")
    if rep["summary"] and any(c and float(c) >= 100 for c in rep["summary"]["cells"]):
        cl.append("total>=100")
    if want_len:
        cl.append("length-warning")
    if lcd:
        cl.append("has-lcd")
    return {"nontrivial": nt, "classes": cl, "key": [code, argv],
            "sample": {"argv": argv, "kernel": case["kernel"], "lines": len(case["body"]), "select": case["select"]}}


def plan(tier, seed):
    n = {"quick": 14, "thorough": 700}[tier]
    shards = []
    xa, aa = env.X86_ARCHS, env.A64_ARCHS
    for i in range(16):
        isa = "x86" if i % 2 == 0 else "aarch64"
        archs = xa if isa == "x86" else aa
        j = i // 2
        shards.append({"isa": isa, "archs": [archs[j % len(archs)], archs[(j + 3) % len(archs)]],
                       "seed": seed * 1000 + 1300 + i, "n": n})
    return shards


def run_shard(spec):
    stats = Stats()
    ks = [k for k in corpus.kernels() if k[1] == spec["isa"] and len(k[2]) < 50]
    failures = hyp_search(ID, cases(spec["isa"], spec["archs"], ks), check_case, stats, seed=spec["seed"],
                          max_examples=spec["n"], shrink=False)
    return {"stats": stats.to_dict(), "failures": failures}


def replay(case):
    return check_case(case)


LEVEL_TEXT = ("Randomised consistency testing of the three outputs of one analysis (text report parsed back "
              "positionally, --yaml-out, the analysis' own LCD set) over kernels x shipped models x option "
              "combinations through the CLI entry point.")
LEVEL_NOTE = "Trusted: the positional report parser lib/report.py (written against the report layout, not frontend.py)."
TECHNIQUE = "property-based consistency testing: parse the text report back and compare with the machine-readable output"
