"""C20 - benchmark import snaps measurements and emits every imported form."""
import io
import math
import os
import tempfile
import warnings

from hypothesis import strategies as st

from lib import core, env
from lib.core import Stats, Violation, guard, hyp_search

ID = "C20"
LEVEL = "exploration"
WARM = []
RULE = (
    "Hypothesis-generated ibench / asmbench files: 1-6 instruction-form names over all documented operand codes of "
    "both ISAs (x86 r x y z i m[b][o][i][s]; AArch64 w x b h s d q v[bhsd] i m[b][o][i][s][r][p]), measurements at "
    "snap points times (1 +- {0, 0.03, 0.049, 0.051, 0.08}) and between snap points, zero and large values, printed "
    "in the tools' formats; ibench TP/LT pairs in either order, TP-only, LT-only; asmbench files with a structural "
    "corruption (missing blank line, extra line, non-blank separator line that leaves later blocks aligned) at a generated block. Oracle: the stream emitted by "
    "'osaca --arch A --import T FILE' parsed as plain YAML contains exactly one entry per imported form with the "
    "operands of the README's decoder, throughput = round(1/n,5) for the n in 1..10 within 5%, latency = nearest "
    "integer within 5%, otherwise missing; entries before a malformed asmbench block present, none from it on. "
    "Non-trivial: a file with >=1 accepted and >=1 rejected measurement, or a corruption that is not in the first "
    "block. Distinct = distinct file content."
)
ASSUMPTIONS = [
    "measurements within 1e-9 (relative) of a 5% boundary accept both outcomes",
    "corruption is structural only (line count / blank lines); non-numeric measurement text is not generated",
    "every form of a file has its own mnemonic (two codes decoding to the same operands would be one form)",
    "zen1/tx2/n1 are served from a harness data directory with small stand-in models (the import uses only the ISA)",
]
MIN_NONTRIVIAL = {"quick": 300, "thorough": 3000}

X86_CODES = ["r", "x", "y", "z", "i", "mb", "mbo", "mbi", "mboi", "mbis", "mbois", "mo", "moi", "mois", "mi", "mis"]
A64_CODES = list("wxbhsdq") + ["v", "vb", "vh", "vs", "vd", "i", "mb", "mbo", "mbi", "mboi", "mbis", "mbor", "mbop",
                               "mbp", "mbr", "mbois"]


def dec_x86(c):
    if c == "r":
        return {"class": "register", "name": "gpr"}
    if c in ("x", "y", "z"):
        return {"class": "register", "name": c + "mm"}
    if c == "i":
        return {"class": "immediate", "imd": "int"}
    t = c[1:]
    return {"class": "memory", "base": "gpr" if "b" in t else None, "offset": "imd" if "o" in t else None,
            "index": "gpr" if "i" in t else None, "scale": 8 if "s" in t else 1}


def dec_a64(c):
    if c == "i":
        return {"class": "immediate", "imd": "int"}
    if c in list("wxbhsdq"):
        return {"class": "register", "prefix": c}
    if c[0] == "v":
        return {"class": "register", "prefix": "v", "shape": c[1:2] or "d"}
    t = c[1:]
    return {"class": "memory", "base": "x" if "b" in t else None, "offset": "imd" if "o" in t else None,
            "index": "gpr" if "i" in t else None, "scale": 8 if "s" in t else 1,
            "pre_indexed": "r" in t, "post_indexed": "p" in t}


def snap_tp(m):
    """(value|None, ambiguous)"""
    amb = False
    for n in range(1, 11):
        r = 1.0 / n
        lo, hi = r * 0.95, r * 1.05
        if abs(m - lo) <= 1e-9 * max(1, lo) or abs(m - hi) <= 1e-9 * max(1, hi):
            amb = True
        if lo <= m <= hi:
            return round(r, 5), amb
    return None, amb


def snap_lt(m):
    n = math.floor(m + 0.5)
    cands = {math.floor(m), math.ceil(m)}
    amb = any(abs(m - 1.05 * c) <= 1e-9 * max(1, m) or abs(m - 0.95 * c) <= 1e-9 * max(1, m) for c in cands) \
        or abs((m - math.floor(m)) - 0.5) < 1e-9
    ok = m <= 1.05 * math.floor(m) or m >= 0.95 * math.ceil(m)
    return (float(round(m)) if ok else None), amb


@st.composite
def measurement(draw, kind):
    if kind == "tp":
        n = draw(st.integers(1, 12))
        f = draw(st.sampled_from([1, 1, 1.03, 0.97, 1.049, 0.951, 1.051, 0.949, 1.08, 0.9, 1.2, 0.5]))
        v = (1.0 / n) * f
        if draw(st.integers(0, 9)) == 0:
            v = draw(st.sampled_from([0.0, 3.0, 17.5, 0.075]))
    else:
        n = draw(st.integers(0, 40))
        f = draw(st.sampled_from([1, 1, 1.03, 0.97, 1.049, 1.051, 0.949, 1.08, 0.9]))
        v = n * f + draw(st.sampled_from([0, 0, 0, 0.3, 0.5, 0.45]))
    return round(max(0.0, v), 3)


@st.composite
def cases(draw):
    isa, arch = draw(st.sampled_from([("x86", "zen1"), ("aarch64", "tx2"), ("aarch64", "n1")]))
    codes = X86_CODES if isa == "x86" else A64_CODES
    bench = draw(st.sampled_from(["ibench", "asmbench"]))
    forms = []
    for k in range(draw(st.integers(1, 6))):
        ops = [draw(st.sampled_from(codes)) for _ in range(draw(st.integers(1, 3)))]
        letter = "abcdef"[k]
        if forms and draw(st.integers(0, 2)) == 0:
            # another form of a mnemonic imported before (other operand kinds, often the same operand count)
            prev = draw(st.sampled_from(forms))["name"]
            pm, po = prev.split("-")
            if draw(st.booleans()):
                ops = (ops + ops + ops)[:len(po.split("_"))]
            dec = dec_x86 if isa == "x86" else dec_a64
            mine = [dec(c) for c in ops]
            # (two codes can denote the same operand pattern, e.g. v and vd: that would be the same form twice)
            if not any(f_["name"].split("-")[0] == pm and [dec(c) for c in f_["name"].split("-")[1].split("_")] == mine
                       for f_ in forms):
                letter = pm[4:]
        forms.append({"name": "tstq%s-%s" % (letter, "_".join(ops)), "tp": draw(measurement("tp")),
                      "lt": draw(measurement("lt")),
                      "which": draw(st.sampled_from(["both", "both", "both", "rev", "tp", "lt"])) if bench == "ibench"
                      else "both"})
    corrupt = None
    if bench == "asmbench" and draw(st.integers(0, 2)) == 0:
        corrupt = [draw(st.sampled_from(["missing-blank", "extra-line", "nonblank-separator"])), draw(st.integers(0, len(forms) - 1))]
    # ibench prints one result line per benchmark: the lines of one form need not be adjacent
    order = "adjacent"
    perm = None
    if bench == "ibench":
        order = draw(st.sampled_from(["adjacent", "adjacent", "grouped", "shuffled"]))
        if order == "shuffled":
            nlines = sum(2 if f["which"] in ("both", "rev") else 1 for f in forms)
            perm = draw(st.permutations(list(range(nlines))))
    return {"isa": isa, "arch": arch, "bench": bench, "forms": forms, "corrupt": corrupt,
            "header": draw(st.booleans()), "final_blank": True, "order": order, "perm": perm}


def render(case):
    out = []
    if case["bench"] == "ibench":
        if case["header"]:
            out.append("Using frequency 2.50GHz.")
        body = []
        for f in case["forms"]:
            tp = "%s-TP:   %.3f (clock cycles)    [DEBUG - result: 1.000000]" % (f["name"], f["tp"])
            lt = "%s-LT:   %.3f (clock cycles)    [DEBUG - result: 1.000000]" % (f["name"], f["lt"])
            body += {"both": [tp, lt], "rev": [lt, tp], "tp": [tp], "lt": [lt]}[f["which"]]
        if case.get("order") == "grouped":
            body = [l for l in body if "-TP:" in l] + [l for l in body if "-LT:" in l]
        elif case.get("order") == "shuffled" and case.get("perm"):
            body = [body[i] for i in case["perm"] if i < len(body)]
        return "\n".join(out + body) + "\n"
    for k, f in enumerate(case["forms"]):
        if case["corrupt"] and case["corrupt"] == ["extra-line", k]:
            out.append("")
        out += [f["name"], "Latency: %.3f cy" % f["lt"], "Throughput: %.3f cy" % f["tp"]]
        if case["corrupt"] and case["corrupt"] == ["nonblank-separator", k]:
            out.append("----")  # the following blocks stay aligned: the import still has to stop here
        elif not (case["corrupt"] and case["corrupt"] == ["missing-blank", k]):
            out.append("")
    return "\n".join(out) + "\n"


_TINY = {}


def tiny_models():
    """Small stand-ins for zen1/tx2/n1 in a data directory that precedes the package data (as a user's
    ~/.osaca/data would): the import only needs the model's ISA, and dumping a full model costs ~1 s."""
    if _TINY:
        return
    from lib import synth
    from osaca import utils

    d = tempfile.mkdtemp(prefix="verif-c20-data-")
    for arch, isa in (("zen1", "x86"), ("tx2", "AArch64"), ("n1", "AArch64")):
        reg = {"class": "register", "name": "gpr"} if isa == "x86" else {"class": "register", "prefix": "x"}
        top = synth.arch_model(isa, ["0", "1"], [{"name": "existing", "operands": [reg, reg], "throughput": 1.0,
                                                  "latency": 1.0, "port_pressure": [[1, "01"]]}])
        top["arch_code"] = arch
        with open(os.path.join(d, arch + ".yml"), "w") as fh:
            fh.write(synth.yaml_doc(top))
    utils.DATA_DIRS.insert(0, d)
    _TINY["dir"] = d


def run_import(case, text):
    import osaca.osaca as oo

    tiny_models()

    d = tempfile.mkdtemp(prefix="verif-c20-")
    p = os.path.join(d, "bench.dat")
    with open(p, "w") as fh:
        fh.write(text)
    try:
        parser = oo.create_parser()
        args = parser.parse_args(["--arch", case["arch"], "--import", case["bench"], p])
        oo.check_arguments(args, parser)
        out = io.StringIO()
        err = io.StringIO()
        import contextlib
        with warnings.catch_warnings():
            warnings.simplefilter("ignore")
            with contextlib.redirect_stderr(err):
                oo.run(args, output_file=out)
        args.file.close()
        return out.getvalue()
    finally:
        try:
            os.remove(p)
            os.rmdir(d)
        except OSError:
            pass


def check_case(case):
    from ruamel.yaml import YAML

    text = render(case)
    out = guard(run_import, case, text, what="osaca --arch %s --import %s" % (case["arch"], case["bench"]))
    try:
        data = YAML(typ="safe").load(out)
    except Exception as e:  # noqa
        raise Violation("emitted-yaml", "emitted stream is not valid YAML: %s" % e, out[-300:], None)
    got = {}
    for e in data.get("instruction_forms", []):
        nm = e.get("mnemonic", e.get("name"))
        if isinstance(nm, str) and nm.startswith("tstq"):
            got.setdefault(nm, []).append(e)
    dec = dec_x86 if case["isa"] == "x86" else dec_a64
    cut = len(case["forms"])
    if case["corrupt"]:
        cut = case["corrupt"][1]
    accepted = rejected = 0
    def ops_of(e_):
        return [{k2: v for k2, v in o.items() if k2 in ("class", "name", "prefix", "shape", "imd", "base", "offset",
                                                        "index", "scale", "pre_indexed", "post_indexed")}
                for o in e_.get("operands", [])]

    for k, f in enumerate(case["forms"]):
        mn, ops = f["name"].split("-")
        es = got.get(mn, [])
        tag = "%s:%s" % (case["bench"], case["isa"])
        shared = sum(1 for f_ in case["forms"] if f_["name"].split("-")[0] == mn) > 1
        if shared:
            # several imported forms of one mnemonic: this form's entry is the one with its operands
            want = [dec(c) for c in ops.split("_")]
            mine = [e_ for e_ in es if ops_of(e_) == want]
            if k < cut and len(mine) != 1:
                raise Violation("entry-count:shared-mnemonic:" + tag, "imported form %s (one of several forms of %s in "
                                "the file) appears %d times in the emitted model" % (f["name"], mn, len(mine)),
                                [ops_of(e_) for e_ in es], want)
            es = mine
        if k >= cut:
            if es:
                raise Violation("after-malformed-block:" + tag, "form %s at or after the malformed asmbench block was "
                                "imported" % f["name"], len(es), 0)
            continue
        if len(es) != 1:
            raise Violation("entry-count:%s%s" % (tag, ":corrupt" if case["corrupt"] else ""),
                            "imported form %s appears %d times in the emitted model" % (f["name"], len(es)), len(es), 1)
        e = es[0]
        exp_ops = [dec(c) for c in ops.split("_")]
        got_ops = [{k2: v for k2, v in o.items() if k2 in ("class", "name", "prefix", "shape", "imd", "base", "offset",
                                                           "index", "scale", "pre_indexed", "post_indexed")}
                   for o in e.get("operands", [])]
        if got_ops != exp_ops:
            bad = [c for c, a, b in zip(ops.split("_"), got_ops + [None] * 3, exp_ops) if a != b]
            raise Violation("operands:%s:%s" % (case["isa"], (bad or ["count"])[0]),
                            "operands of %s not decoded according to the naming convention" % f["name"], got_ops,
                            exp_ops)
        if f["which"] in ("both", "rev", "tp"):
            exp, amb = snap_tp(f["tp"])
            if not amb and e.get("throughput") != exp:
                raise Violation("tp-snap:" + ("accept" if exp is not None else "reject"),
                                "throughput measurement %r of %s" % (f["tp"], f["name"]), e.get("throughput"), exp)
            accepted += exp is not None
            rejected += exp is None
        elif e.get("throughput") is not None:
            raise Violation("tp-invented", "throughput recorded without a TP line for %s" % f["name"],
                            e.get("throughput"), None)
        if f["which"] in ("both", "rev", "lt"):
            exp, amb = snap_lt(f["lt"])
            if not amb and e.get("latency") != exp:
                raise Violation("lt-snap:" + ("accept" if exp is not None else "reject"),
                                "latency measurement %r of %s" % (f["lt"], f["name"]), e.get("latency"), exp)
            accepted += exp is not None
            rejected += exp is None
        elif e.get("latency") is not None:
            raise Violation("lt-invented", "latency recorded without an LT line for %s" % f["name"], e.get("latency"),
                            None)
    extra = set(got) - {f["name"].split("-")[0] for f in case["forms"]}
    if extra:
        raise Violation("invented-entry", "emitted model contains forms that were not in the file", sorted(extra), None)
    if any(sum(1 for f_ in case["forms"] if f_["name"].split("-")[0] == f["name"].split("-")[0]) > 1
           for f in case["forms"]):
        shared_cl = ["several-forms-of-one-mnemonic"]
    else:
        shared_cl = []
    nt = (accepted and rejected) or (case["corrupt"] is not None and case["corrupt"][1] > 0)
    cl = [case["bench"], case["isa"]] + shared_cl
    if case["corrupt"]:
        cl.append("corrupt:" + case["corrupt"][0] + (":last" if case["corrupt"][1] == len(case["forms"]) - 1 else ""))
    if rejected:
        cl.append("rejected-measurement")
    if any(f["which"] in ("tp", "lt") for f in case["forms"]):
        cl.append("single-line-form")
    if case["bench"] == "ibench":
        cl.append("line-order:" + case.get("order", "adjacent"))
    return {"nontrivial": bool(nt), "classes": cl, "key": text, "sample": {"arch": case["arch"], "bench": case["bench"],
                                                                        "file": text.split("\n")[:10]}}


def plan(tier, seed):
    n = {"quick": 250, "thorough": 4000}[tier]
    return [{"seed": seed * 1000 + 2000 + i, "n": n} for i in range(16)]


def run_shard(spec):
    stats = Stats()
    failures = hyp_search(ID, cases(), check_case, stats, seed=spec["seed"], max_examples=spec["n"])
    return {"stats": stats.to_dict(), "failures": failures}


def replay(case):
    return check_case(case)


LEVEL_TEXT = ("Randomised differential testing of the import path (through the CLI entry point) against a reference "
              "operand decoder written from the README and a reference snapping function, incl. structural "
              "corruption of asmbench files.")
LEVEL_NOTE = "Trusted: the reference decoder/snapping in checks/c20.py; measurements on a tolerance boundary are not asserted."
TECHNIQUE = "property-based differential testing against a reference decoder and snapping function"
