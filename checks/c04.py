"""C04 - critical path is the longest latency-weighted dependency chain."""
from hypothesis import strategies as st

from lib import core, corpus, deps, env, synth
from lib.core import Stats, Violation, failure_record, guard, hyp_search

ID = "C04"
LEVEL = "exploration"
WARM = None
RULE = (
    "(a) C03's generated kernels (synthetic ISA/latency models of both flavours, 2-14 lines, latencies drawn from "
    "{0,0.5,1,2,3,5,10,missing}: zero latencies, dominant last instruction, ties, chains starting with a composed "
    "load, kernels without dependencies); reference = longest weighted chain by DP over the independently computed "
    "RAW relation (edge weights as in C03, terminal = execution latency, leading load stage counted once); "
    "(b) every shipped example/test kernel on shipped models of its ISA; reference = independent longest-path DP "
    "over the reported graph. Checked: reported total == reference (under- and over-reporting are separate "
    "clauses), consecutive CP lines are linked by an edge, last CP line carries its own latency. Non-trivial: the "
    "reference critical path is strictly longer than the largest single-instruction latency (a chain of >=2 "
    "instructions decides it). Distinct = distinct (models, kernel)."
)
ASSUMPTIONS = [
    "cases whose edge set disagrees with the reference relation are C03's business and skipped here (counted); "
    "edge weights and load stages are taken from the generated specification, not from OSACA",
    "where an edge has two admissible weights the weight OSACA reports (validated against the candidates) is used",
]
MIN_NONTRIVIAL = {"quick": 300, "thorough": 3000}


def ref_cp_from_graph(nodes_lat, edges, loadnode):
    """Independent DP. nodes_lat: {pos: latency}; edges {(a,b): w} between instruction positions;
    loadnode {pos: load stage latency}.  Returns (value, argmax end, uses_load_head)"""
    order = sorted(nodes_lat)
    acc_inner = {}
    best, best_end, best_load = -1.0, None, False
    preds = {}
    for (a, b), w in edges.items():
        preds.setdefault(b, []).append((a, w))
    head = {}
    for b in order:
        acc_end, h = 0.0, False
        for a, w in preds.get(b, ()):
            if acc_inner[a] + w > acc_end:
                acc_end, h = acc_inner[a] + w, head[a]
        own = loadnode.get(b, 0.0)
        if own > acc_end:
            acc_inner[b], head[b] = own, True
        else:
            acc_inner[b], head[b] = acc_end, h
        tot = acc_end + nodes_lat[b]
        if tot > best:
            best, best_end, best_load = tot, b, h
    return max(best, 0.0), best_end, best_load


def check_cp(kernel, dg, nodes_lat, edges, loadnode, first_line, tag):
    cp = guard(dg.get_critical_path, what="get_critical_path")
    total = sum(float(x.latency_cp) for x in cp)
    ref, end, load_head = ref_cp_from_graph(nodes_lat, edges, loadnode)
    if total < ref - 1e-9:
        raise Violation("cp-under:" + tag, "reported critical path is shorter than the longest dependency chain",
                        total, ref)
    if total > ref + 1e-9:
        raise Violation("cp-over:" + tag, "reported critical path is longer than the longest dependency chain",
                        total, ref)
    if any(x.mnemonic is None for x in cp):
        raise Violation("cp-noninstruction:" + tag, "a label/comment/directive line is marked as critical path",
                        [x.line for x in cp if x.mnemonic is None], None)
    lines = [x.line_number - first_line - 1 for x in cp]
    if lines != sorted(lines) or len(set(lines)) != len(lines):
        raise Violation("cp-order:" + tag, "critical-path lines not in program order / repeated", lines, None)
    for a, b in zip(lines, lines[1:]):
        if (a, b) not in edges:
            raise Violation("cp-unlinked:" + tag, "consecutive critical-path lines are not linked by a dependency",
                            [a, b], None)
    if cp and abs(float(cp[-1].latency_cp) - nodes_lat[lines[-1]]) > 1e-9 and len(cp) > 0:
        # the last instruction of the chain contributes its execution latency
        if not (len(cp) == 1 and abs(total - ref) < 1e-9):
            raise Violation("cp-last:" + tag, "last critical-path line does not carry its execution latency",
                            float(cp[-1].latency_cp), nodes_lat[lines[-1]])
    single = max(nodes_lat.values()) if nodes_lat else 0.0
    return total, ref, single, load_head, len(cp)


def check_case(case):
    if case.get("kind") == "corpus":
        return check_corpus(case)
    from checks import c03

    kernel, dg, mm, sem = c03.runner().build(case)
    E, info = deps.ref_edges(case)
    unc = deps.uncertain_pairs(case, info)
    got, loadnodes = c03.observed_edges(case, dg)
    nodes_lat = {i: inf["lat"] for i, inf in enumerate(info) if inf is not None}
    for i, inf in enumerate(info):
        if inf is None:
            nodes_lat[i] = 0.0
    # reference relation and weights from the generated specification; where two weights are admissible for one
    # pair the one OSACA reports (if admissible) is used; store->load pairs the reference does not decide
    # (AArch64 write-back) are taken as observed
    edges = {}
    for e, ws in E.items():
        if e in unc:
            continue
        w = got.get(e)
        edges[e] = w if (w is not None and any(abs(w - c) < 1e-9 for c in ws)) else (min(ws) if len(ws) > 1
                                                                                      else next(iter(ws)))
    for e in unc:
        if e in got:
            edges[e] = got[e]
    if set(edges) != set(got):
        # the graph OSACA built differs from the read-after-write relation (C03 reports that): the equality clauses
        # are not comparable, but the critical path must still not be shorter than a dependency chain of the
        # relation - lower bound with the smallest admissible weight per edge, pairs of uncertain status left out
        low = {e: min(ws) for e, ws in E.items() if e not in unc}
        cp = guard(dg.get_critical_path, what="get_critical_path")
        total = sum(float(x.latency_cp) for x in cp)
        ref, _, _ = ref_cp_from_graph(nodes_lat, low, {})
        if total < ref - 1e-9:
            raise Violation("cp-under:%s:graph-differs" % case["isa"], "reported critical path is shorter than a chain "
                            "of the read-after-write relation (the dependency graph itself lacks an edge of it)",
                            total, ref)
        return {"nontrivial": False, "classes": ["edge-set-disagreement(C03):lower-bound-only"]}
    loadnode = {i: inf["load"] for i, inf in enumerate(info) if inf is not None and inf["load"] is not None
                and inf["has_load_node"]}
    total, ref, single, load_head, n = check_cp(kernel, dg, nodes_lat, edges, loadnode,
                                                case.get("first_line", 0), case["isa"])
    # the CP column of the combined view marks exactly the critical-path lines with their CP latencies (a member
    # contributing 0 cycles is still a member), and the summary row shows their sum
    from lib import report
    from osaca.frontend import Frontend
    fe = Frontend.__new__(Frontend)
    fe._machine_model, fe._arch, fe._filename = mm, "syn", "x"
    cp_k = guard(dg.get_critical_path, what="get_critical_path")
    text = guard(fe.combined_view, kernel, cp_k, guard(dg.get_loopcarried_dependencies, what="lcd"), True,
                 what="combined_view")
    try:
        rep = report.parse(text)
    except report.ReportError as e:
        raise Violation("report-format", "combined view cannot be parsed back: %s" % e, text[-400:], None)
    fl = case.get("first_line", 0)
    marked = {l["lineno"] - fl - 1: float(l["cp"]) for l in rep["lines"] if l["cp"] != ""}
    want = {x.line_number - fl - 1: float(x.latency_cp) for x in cp_k}
    if marked != want:
        zero = any(v == 0.0 for v in want.values())
        raise Violation("cp-column:%s%s" % (case["isa"], ":zero-latency-member" if zero else ""),
                        "the CP column does not mark exactly the critical-path lines with their latencies",
                        {str(k): v for k, v in sorted(marked.items())}, {str(k): v for k, v in sorted(want.items())})
    if rep["summary"] is not None and abs(float(rep["summary"]["cp"]) - total) > 1e-9:
        raise Violation("cp-summary-row:" + case["isa"], "CP figure of the summary row", rep["summary"]["cp"], total)
    cl = [case["isa"]]
    # the same kernel with blank lines inside (gaps in the line numbering): same critical-path instructions, same
    # per-line CP latencies, same total
    gaps = sorted({1 + (case.get("first_line", 0) * 7 + 3 * j + len(case["kernel"])) % max(1, len(case["kernel"]) - 1)
                   for j in range(2)}) if len(case["kernel"]) >= 3 else []
    if gaps:
        from checks import c03
        tl = deps.kernel_text(case).split("\n")
        lead = case.get("first_line", 0)
        for g in reversed(gaps):
            tl.insert(lead + g, "")
        k2, dg2, _, _ = c03.runner().build(case, text="\n".join(tl))
        cp2 = guard(dg2.get_critical_path, what="get_critical_path(gaps)")
        pos1 = {id(x): i for i, x in enumerate(kernel)}
        pos2 = {id(x): i for i, x in enumerate(k2)}
        a1 = sorted((pos1[id(x)], float(x.latency_cp)) for x in cp_k)
        a2 = sorted((pos2[id(x)], float(x.latency_cp)) for x in cp2 if id(x) in pos2)
        if a1 != a2 or len(a2) != len(cp2):
            raise Violation("cp-gaps:" + case["isa"], "blank lines inside the kernel (line numbers with gaps) change "
                            "the critical path (instruction positions, CP latencies)", a2, a1)
        cl.append("line-number-gaps")
    if any(v == 0.0 for v in want.values()) and len(want) > 1:
        cl.append("cp-has-zero-latency-member")
    if load_head:
        cl.append("chain-starts-at-load-stage")
    if not E:
        cl.append("no-dependencies")
    if ref > single:
        cl.append("chain-decides")
    zero = any(inf is not None and inf["lat"] == 0 for inf in info)
    if zero:
        cl.append("zero-latency-instr")
    return {"nontrivial": ref > single + 1e-9, "classes": cl,
            "key": [case["forms"], case["kernel"], case["flagdeps"]],
            "sample": {"isa": case["isa"], "kernel": deps.kernel_text(case).strip().split("\n"),
                       "latencies": [f_["lat"] for f_ in case["forms"]], "cp": total}}


_M = {}


def check_corpus(case):
    from osaca.semantics import ArchSemantics, KernelDG, MachineModel
    from osaca.parser import ParserAArch64, ParserX86ATT

    arch = case["arch"]
    if arch not in _M:
        _M.clear()
        mm = guard(MachineModel, arch=arch, what="MachineModel")
        _M[arch] = (mm, guard(ArchSemantics, mm, what="ArchSemantics"))
    mm, sem = _M[arch]
    parser = ParserX86ATT() if env.isa_of(arch) == "x86" else ParserAArch64()
    kernel = guard(parser.parse_file, "\n".join(case["lines"]) + "\n", what="parse_file")
    guard(sem.add_semantics, kernel, what="add_semantics")
    dg = guard(KernelDG, kernel, parser, mm, sem, timeout=-1, what="KernelDG")
    nodes_lat = {k.line_number - 1: float(k.latency) for k in kernel}
    edges, loadnode = {}, {}
    for a, b, dt in dg.dg.edges(data=True):
        if a != int(a):
            loadnode[int(a) - 1] = float(dt["latency"])
        else:
            edges[(int(a) - 1, int(b) - 1)] = float(dt["latency"])
    total, ref, single, load_head, n = check_cp(kernel, dg, nodes_lat, edges, loadnode, 0, "corpus")
    cl = ["corpus", "corpus:" + arch]
    if load_head:
        cl.append("chain-starts-at-load-stage")
    return {"nontrivial": ref > single + 1e-9, "classes": cl, "key": [case["name"], arch],
            "sample": {"kernel": case["name"], "arch": arch, "cp": total, "max_single_latency": single}}


def plan(tier, seed):
    n = {"quick": 260, "thorough": 12000}[tier]
    shards = []
    for i in range(12):
        shards.append({"kind": "synthetic", "isa": "x86" if i % 2 == 0 else "aarch64",
                       "seed": seed * 1000 + 400 + i, "n": n, "max_len": 14 if i % 4 < 2 else 7})
    archs = env.ALL_ARCHS if tier == "thorough" else ["zen1", "spr", "zen2", "hsw", "tx2", "n1", "a64fx", "v2"]
    for j in range(4):
        shards.append({"kind": "corpus", "archs": archs[j::4]})
    return shards


def run_shard(spec):
    stats = Stats()
    if spec["kind"] == "corpus":
        failures = {}
        ks = corpus.kernels()
        for arch in spec["archs"]:
            for name, isa, lines in ks:
                if isa != env.isa_of(arch):
                    continue
                case = {"kind": "corpus", "arch": arch, "name": name, "lines": lines}
                try:
                    info = check_corpus(case)
                except Violation as v:
                    stats.evaluations += 1
                    b = v.bucket + ":" + arch if v.bucket.startswith("crash") else v.bucket
                    v.bucket = b
                    if b not in failures:
                        failures[b] = failure_record(ID, case, v)
                    continue
                stats.record(case, info)
        return {"stats": stats.to_dict(), "failures": list(failures.values())}
    strat = deps.dep_cases(isa=spec["isa"], max_len=spec["max_len"], big_lines=False)
    failures = hyp_search(ID, strat, check_case, stats, seed=spec["seed"], max_examples=spec["n"])
    from checks import c03
    c03.runner().close()
    return {"stats": stats.to_dict(), "failures": failures}


def replay(case):
    return check_case(case)


LEVEL_TEXT = ("Randomised differential testing of the reported critical path against an independent longest-chain "
              "computation, on generated kernels (reference relation from the generated ISA specification) and on "
              "the complete shipped kernel corpus x shipped models (reference DP over the reported graph).")
LEVEL_NOTE = ("Trusted: the DP in checks/c04.py and R-dep (lib/deps.py). Corpus part trusts OSACA's edge set (that is "
              "C03's subject) and only re-derives the longest chain.")
TECHNIQUE = "property-based differential testing against an independent longest-weighted-chain DP"
