"""C01 - port pressure is a feasible split of each instruction's micro-ops."""
import copy
import os

from hypothesis import strategies as st

from lib import core, ports, synth
from lib.core import Stats, Violation, guard, hyp_search

ID = "C01"
LEVEL = "exploration"
WARM = None
RULE = (
    "Hypothesis-generated synthetic port models (2-8 ports incl. multi-character names, 1-5 forms with "
    "0-4 micro-ops over identical/nested/disjoint/overlapping port sets, string and list port notation, "
    "alternative assignments, throughput absent/0/positive) x kernels of 1-12 (thorough 1-40) lines with "
    "labels/comments x {uniform, optimised once, optimised twice}; plus shipped models x kernels of "
    "instructions synthesised from model entries. Oracle: Hall-condition feasibility per instruction and "
    "column sums. Non-trivial: uniform - an instruction with >=2 micro-ops whose port sets intersect; "
    "optimised - at least one instruction whose pressure differs from its uniform pressure. Distinct = "
    "distinct (model, kernel, mode)."
)
ASSUMPTIONS = [
    "optimised-scheduling tolerance per instruction = passes * (0.01 * #micro-ops + 0.005 * sum of port-set "
    "sizes): one balancing step of residue per micro-op loop and half a step per port retired from balancing",
    "totals are compared with the column sums at the rounding get_throughput_sum applies (|diff| <= 0.005)",
]
MIN_NONTRIVIAL = {"quick": 200, "thorough": 2000}
F1 = "F-C01-1"


def in_f1(mode, uops):
    return mode == "opt2" and ports.overlapping_different(uops)


class Runner:
    def __init__(self):
        from osaca.parser import ParserX86ATT

        self.wd = synth.Workdir()
        self.parser = ParserX86ATT()
        self.isa = self.wd.write(synth.isa_model("x86", []), stem="isa")

    def analyse(self, case):
        """Run OSACA; return per-line observations."""
        from osaca.semantics import ArchSemantics, KernelDG
        from osaca.frontend import Frontend

        model = case["model"]
        path = self.wd.write(ports.model_yaml(model))
        try:
            mm, sem = guard(synth.load_arch, path, self.isa, what="model load")
            kernel = guard(self.parser.parse_file, ports.kernel_text(case), what="parse_file")
            guard(sem.add_semantics, kernel, what="add_semantics")
            uniform = [list(i.port_pressure) for i in kernel]
            passes = {"uniform": 0, "opt1": 1, "opt2": 2}[case["mode"]]
            for _ in range(passes):
                guard(sem.assign_optimal_throughput, kernel, what="assign_optimal_throughput")
            obs = {
                "ports": list(mm.get_ports()),
                "uniform": uniform,
                "pressure": [list(i.port_pressure) for i in kernel],
                "uops": [copy.deepcopy(i.port_uops) for i in kernel],
                "tp": [i.throughput for i in kernel],
                "mnemonic": [i.mnemonic for i in kernel],
                "sum": list(guard(ArchSemantics.get_throughput_sum, kernel, what="get_throughput_sum")),
                "passes": passes,
            }
            if case.get("dict"):
                dg = guard(KernelDG, kernel, self.parser, mm, sem, what="KernelDG")
                fe = guard(Frontend, path_to_yaml=path, what="Frontend")
                d = guard(fe.full_analysis_dict, kernel, dg, what="full_analysis_dict")
                obs["dict_sum"] = d["Summary"]["PortPressure"]
                obs["dict_lines"] = [k["PortPressure"] for k in d["Kernel"]]
                guard(fe.full_analysis, kernel, dg, ignore_unknown=True, what="full_analysis")
            return obs
        finally:
            _rm(path)

    def close(self):
        self.wd.close()


def _rm(path):
    import glob
    import os

    d, b = os.path.split(path)
    for f in [path] + glob.glob(os.path.join(d, "." + b[:-4] + "_*.pickle")):
        try:
            os.remove(f)
        except OSError:
            pass


def oracle(case, obs):
    """Raises Violation; returns info dict."""
    model = case["model"]
    mode = case["mode"]
    plist = model["ports"]
    if obs["ports"] != plist:
        raise Violation("ports", "model port list differs from file", obs["ports"], plist)
    passes = obs["passes"]
    nontrivial = False
    classes = [mode]
    excluded = {}
    moved = False
    line = -1
    colsum = [0.0] * len(plist)
    for idx, k in enumerate(case["kernel"]):
        p = obs["pressure"][idx]
        if not isinstance(k, int):
            if any(abs(x) > 0 for x in p) or obs["mnemonic"][idx] is not None:
                raise Violation("nonins", "non-instruction line carries pressure", p, 0)
            continue
        form = model["forms"][k]
        alts = ports.alternatives(form)
        rep = obs["uops"][idx]
        if isinstance(rep, dict):
            if mode != "uniform":
                raise Violation("alt-unresolved", "alternatives not resolved under optimised scheduling",
                                core.jsonable(rep), None)
            got_alts = [ports.norm_uops(rep[k2]) for k2 in sorted(rep)]
            if got_alts != alts:
                raise Violation("uops-spec", "reported micro-op alternatives differ from model entry",
                                core.jsonable(got_alts), core.jsonable(alts))
            uops = alts[0]
        else:
            uops = ports.norm_uops(rep)
            if sorted(uops, key=repr) not in [sorted(a, key=repr) for a in alts]:
                raise Violation("uops-spec", "reported micro-ops are not an alternative of the model entry",
                                core.jsonable(uops), core.jsonable(alts))
        if len(p) != len(plist):
            raise Violation("len", "pressure vector length != number of ports", len(p), len(plist))
        if len(alts) > 1:
            classes.append("alt-form")
        if mode == "uniform":
            tol = 1e-9
        else:
            tol = ports.opt_tolerance(uops, passes)
        if in_f1(mode, uops) and not (case.get("full_oracle") or os.environ.get("VERIF_NO_KNOWN")):
            # known finding: only non-negativity, support and total are asserted
            excluded[F1] = excluded.get(F1, 0) + 1
            d, why = ports.hall_deficit(p, [(sum(c for c, _ in uops),
                                             frozenset().union(*[ps for _, ps in uops]))] if uops else [],
                                        plist)
            if d > tol:
                raise Violation("feasible-weak:" + mode, "line %d (%s): %s" % (idx, form["name"], why),
                                p, core.jsonable(uops))
        else:
            d, why = ports.hall_deficit(p, uops, plist)
            if d > tol:
                raise Violation(
                    "feasible:%s:%s" % (mode, "overlap" if ports.overlapping_different(uops) else
                                        ("multi" if len(uops) > 1 else "single")),
                    "line %d (%s): %s (deficit %.4f > tol %.4f)" % (idx, form["name"], why, d, tol),
                    p, core.jsonable(uops))
        if mode == "uniform":
            ss = [ps for _, ps in uops]
            if any(a & b for i, a in enumerate(ss) for b in ss[i + 1:]):
                nontrivial = True
                classes.append("uniform-overlap")
        elif any(abs(a - b) > 1e-9 for a, b in zip(p, obs["uniform"][idx])):
            moved = True
        if obs["tp"][idx] != 0.0:
            colsum = [a + b for a, b in zip(colsum, p)]
        else:
            classes.append("line-without-throughput")
    if mode != "uniform" and moved:
        nontrivial = True
        classes.append("balancer-moved")
    # totals
    tot = obs["sum"]
    any_summed = any(isinstance(k, int) and obs["tp"][i] != 0.0 for i, k in enumerate(case["kernel"]))
    if not any_summed:
        if tot not in ([], [0.0] * len(plist)):
            raise Violation("totals", "totals over a kernel without summed lines", tot, [])
    else:
        if len(tot) != len(plist) or any(abs(a - b) > 0.005 + 1e-9 for a, b in zip(tot, colsum)):
            raise Violation("totals", "per-port totals are not the column sums over lines with throughput",
                            tot, colsum)
    if "dict_sum" in obs:
        classes.append("frontend-dict")
        ds = [obs["dict_sum"][q] for q in plist]
        exp = tot if any_summed else None
        if exp is not None and ds != exp:
            raise Violation("dict-totals", "Summary.PortPressure differs from totals", ds, exp)
        for idx, dl in enumerate(obs["dict_lines"]):
            if [dl[q] for q in plist] != obs["pressure"][idx]:
                raise Violation("dict-lines", "Kernel[%d].PortPressure differs" % idx, dl,
                                obs["pressure"][idx])
    return {"nontrivial": nontrivial, "classes": sorted(set(classes)), "excluded": excluded,
            "key": [model, case["kernel"], mode],
            "sample": {"ports": plist, "forms": model["forms"], "kernel": case["kernel"], "mode": mode}}


_R = {}


def check_case(case):
    if "r" not in _R:
        _R["r"] = Runner()
    if case.get("kind") == "shipped":
        from checks import c01_shipped
        return c01_shipped.check_case(case)
    obs = _R["r"].analyse(case)
    return oracle(case, obs)


def known_bucket(v, case):
    return None


def plan(tier, seed):
    n = {"quick": 500, "thorough": 9000}[tier]
    maxlen = {"quick": 12, "thorough": 40}[tier]
    shards = [{"kind": "synthetic", "seed": seed * 1000 + i, "n": n, "max_len": maxlen if i % 2 else 12}
              for i in range(12)]
    try:
        from checks import c01_shipped
    except ImportError:
        return shards
    shards += c01_shipped.plan(tier, seed)
    return shards


def run_shard(spec):
    if spec["kind"] == "shipped":
        from checks import c01_shipped
        return c01_shipped.run_shard(spec)
    stats = Stats()
    strat = ports.port_cases(max_len=spec["max_len"])
    failures = hyp_search(ID, strat, check_case, stats, seed=spec["seed"], max_examples=spec["n"])
    _R["r"].close() if "r" in _R else None
    return {"stats": stats.to_dict(), "failures": failures}


def replay(case):
    return check_case(case)


LEVEL_TEXT = ("Randomised search (Hypothesis, 16 seeded shards) over synthetic port models and kernels plus "
              "entry-derived kernels on all shipped models, each checked against Hall's feasibility condition "
              "computed independently from the generated model; evidence is proportional to the case counts "
              "reported, no absence claim.")
LEVEL_NOTE = ("Trusted: the reference feasibility test (lib/ports.py), the stated tolerance for the optimised "
              "mode, the YAML emitter. Instructions in the class of known finding F-C01-1 get the weaker oracle "
              "(non-negative, support, total).")
TECHNIQUE = "property-based testing (Hypothesis) with a Hall-condition feasibility oracle over generated port models"
